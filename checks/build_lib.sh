#!/bin/bash
# Builds libspqlios.a from /repo's *current working tree* in one flavour, through the
# repository's own CMake (so per-file -mavx2/-mfma options and the .s kernels follow the repo).
# usage: build_lib.sh <tsan|asan|plain> [repo_dir]
set -e
FL="$1"; REPO="${2:-/repo}"
VERIF="$(cd "$(dirname "$0")/.." && pwd)"
B="$VERIF/build/$FL"
case "$FL" in
  tsan)  CC=clang-14; CFLAGS="-O2 -g -DNDEBUG -DSPQLIOS_VERIF -fsanitize=thread -fsanitize-coverage=trace-pc-guard,trace-loads,trace-stores -fno-omit-frame-pointer";;
  asan)  CC=clang-14; CFLAGS="-O2 -g -DNDEBUG -DSPQLIOS_VERIF -fsanitize=address -fno-omit-frame-pointer";;
  plain) CC=gcc;      CFLAGS="-O2 -g -DNDEBUG -DSPQLIOS_VERIF";;
  *) echo "unknown flavour $FL" >&2; exit 2;;
esac
command -v "$CC" >/dev/null || CC=clang
mkdir -p "$B"
# re-configure only when needed (flags or repo path changed); ninja then rebuilds what changed
STAMP="$CC|$CFLAGS|$REPO"
if [ ! -f "$B/build.ninja" ] || [ "$(cat "$B/.stamp" 2>/dev/null)" != "$STAMP" ]; then
  rm -rf "$B"; mkdir -p "$B"
  cmake -S "$REPO" -B "$B" -G Ninja -DCMAKE_BUILD_TYPE=None \
    -DCMAKE_C_COMPILER="$CC" -DCMAKE_ASM_COMPILER="$CC" \
    -DCMAKE_C_FLAGS="$CFLAGS" -DCMAKE_ASM_FLAGS="-DSPQLIOS_VERIF" \
    -DENABLE_TESTING=OFF -DWARNING_PARANOID=OFF \
    -DCMAKE_TRY_COMPILE_TARGET_TYPE=STATIC_LIBRARY >"$B/cmake.log" 2>&1 || { cat "$B/cmake.log" >&2; exit 2; }
  echo "$STAMP" > "$B/.stamp"
fi
cmake --build "$B" --target libspqlios-static >"$B/build.log" 2>&1 || { tail -50 "$B/build.log" >&2; exit 2; }
ls "$B/spqlios/libspqlios.a" >/dev/null
