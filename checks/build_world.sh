#!/bin/bash
# Builds /verif/build/world_<flavour>: harness + simulator runtime + libspqlios.a (rebuilt from /repo's working tree).
# usage: build_world.sh <tsan|asan|plain> [repo_dir]
set -e
FL="$1"; REPO="${2:-/repo}"
VERIF="$(cd "$(dirname "$0")/.." && pwd)"
if [ "$FL" = drd ]; then
  # the plain world under valgrind's DRD: operand-memory races at every access width, assembly kernels included
  "$0" plain "$REPO"
  mkdir -p "$VERIF/build/drd_logs"
  {
    echo '#!/bin/sh'
    echo "export SIM_DRD_LOGDIR=\"$VERIF/build/drd_logs\""
    echo "exec valgrind --tool=drd -q --log-file=\"$VERIF/build/drd_logs/%p.log\" --check-stack-var=no --first-race-only=yes \"$VERIF/build/world_plain\" \"\$@\""
  } > "$VERIF/build/world_drd"
  chmod +x "$VERIF/build/world_drd"
  exit 0
fi
"$VERIF/checks/build_lib.sh" "$FL" "$REPO"
B="$VERIF/build/$FL"; S="$VERIF/sim"; OUT="$VERIF/build/world_$FL"
WRAP="-Wl,--wrap=malloc,--wrap=calloc,--wrap=realloc,--wrap=free,--wrap=aligned_alloc,--wrap=posix_memalign,--wrap=memalign,--wrap=malloc_usable_size"
case "$FL" in
  tsan)  CXX=clang++-14; CC=clang-14; N=1; SAN="-fsanitize=thread"
         WRAP="$WRAP,--wrap=pthread_mutex_lock,--wrap=pthread_spin_lock,--wrap=pthread_rwlock_rdlock,--wrap=pthread_rwlock_wrlock,--wrap=pthread_once"
         for b in 8 16 32 64; do for o in load store exchange fetch_add fetch_sub fetch_and fetch_or fetch_xor fetch_nand compare_exchange_strong compare_exchange_weak; do
           WRAP="$WRAP,--wrap=__tsan_atomic${b}_${o}"; done; done;;
  asan)  CXX=clang++-14; CC=clang-14; N=2; SAN="-fsanitize=address";;
  plain) CXX=g++; CC=gcc; N=0; SAN="";;
esac
command -v "$CXX" >/dev/null || { CXX=clang++; CC=clang; }
O="$B/obj"; mkdir -p "$O"
# the runtime is never instrumented
$CC -O2 -g -c -DSIM_FLAVOUR=$N -I"$S" "$S/simrt.c" -o "$O/simrt.o"
pids=()
for f in world ops exec gen model json q120ref; do
  if [ ! -f "$O/$f.o" ] || [ "$S/$f.cpp" -nt "$O/$f.o" ] || [ "$S/world.h" -nt "$O/$f.o" ] || [ "$S/simrt.h" -nt "$O/$f.o" ]; then
    $CXX -std=c++17 -O1 -g $SAN -fno-omit-frame-pointer -DSIM_FLAVOUR=$N -DSPQLIOS_VERIF -I"$S" -I"$REPO" -c "$S/$f.cpp" -o "$O/$f.o" &
    pids+=($!)
  fi
done
for p in "${pids[@]}"; do wait $p; done
$CXX $SAN -g -o "$OUT" "$O"/world.o "$O"/ops.o "$O"/exec.o "$O"/gen.o "$O"/model.o "$O"/json.o "$O"/q120ref.o "$O/simrt.o" \
  "$B/spqlios/libspqlios.a" $WRAP -lm -lpthread
