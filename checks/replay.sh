#!/bin/bash
# replays a violation file in the world flavour it was recorded in: checks/replay.sh <file.json> [--verbose]
set -e
V="$(cd "$(dirname "$0")/.." && pwd)"
FL=$(python3 -c "import json,sys;print(json.load(open(sys.argv[1])).get('flavour','plain'))" "$1")
[ -x "$V/build/world_$FL" ] || "$V/checks/build_world.sh" "$FL"
exec "$V/build/world_$FL" --replay "$@"
