#!/usr/bin/env python3
"""Driver of the deterministic-simulation checks (DESIGN §2.6, §8, Appendix B).

usage: run_check.py <C07|C11|C12|C15|C16|C18> <quick|thorough> [--runs N] [--workers W] [--repo DIR] [--keep-going]

Rebuilds the needed world(s) from /repo's working tree, fans the run indices out over zygote processes, classifies
what they report, minimises + gates every violation, writes /verif/evidence/<id>.json and prints
  VIOLATION property=<id> replay=<path>      (exit 1)   for every gated violation not listed as a known finding
  KNOWN-FINDING: property=<id> <what fails>  (exit 0)   for listed open findings
Exit 2 = the machinery failed its own determinism gate (never reported as a property violation).
"""
import collections
import glob
import hashlib
import json
import os
import subprocess
import sys
import time

VERIF = os.path.dirname(os.path.dirname(os.path.abspath(__file__)))
BUILD = os.path.join(VERIF, "build")
REPLAYS = os.path.join(VERIF, "replays")
EVID = os.path.join(VERIF, "evidence")

# property -> list of (world, variant, flavour, share of the runs)
PLAN = {
    "C07": [("c07", 0, "plain", 1.0)],
    "C11": [("c11", 0, "asan", 0.8), ("c11", 0, "plain", 0.2)],
    "C12": [("c12", 0, "tsan", 0.88), ("c12", 1, "tsan", 0.10), ("c12", 1, "drd", 0.02)],
    "C15": [("c15", 0, "plain", 1.0)],
    "C16": [("c16", 0, "plain", 0.5), ("c16", 1, "plain", 0.5)],
    "C18": [("c18", 0, "plain", 0.8), ("c12", 0, "tsan", 0.2)],
}
RUNS = {  # (quick, thorough)
    "C07": (40000, 1500000),
    "C11": (15000, 600000),
    "C12": (6000, 300000),
    "C15": (8000, 300000),
    "C16": (60000, 2500000),
    "C18": (30000, 1200000),
}
# which violation kinds belong to which property (Appendix B); everything else seen in a world is logged as
# "other_findings" and left to the property that owns it
RELEVANT = {
    "C07": {"dispatch-dependent-output", "crash", "guard-page"},
    "C11": {"asan", "garbage-dependent-output", "leak", "frame-write", "crash", "guard-page", "hang"},
    "C12": {"race", "schedule-dependent-output", "frozen-write", "deadlock", "crash", "guard-page", "hang"},
    "C15": {"history-dependent-output", "fp-env-modified", "crash", "guard-page"},
    "C16": {"model-mismatch"},
    "C18": {"frozen-write", "ro-write", "source-modified"},
}
SAMPLE_LIMIT = 6


def sh(cmd, **kw):
    return subprocess.run(cmd, stdout=subprocess.PIPE, stderr=subprocess.PIPE, text=True, **kw)


def build(flavour, repo):
    r = sh([os.path.join(VERIF, "checks", "build_world.sh"), flavour, repo])
    if r.returncode != 0:
        sys.stdout.write(r.stdout)
        sys.stderr.write(r.stderr)
        print("BUILD-FAILED flavour=%s" % flavour)
        sys.exit(2)
    return os.path.join(BUILD, "world_" + flavour)


_sym_cache = {}


def symbolize(binary, pcs):
    out = {}
    need = [p for p in pcs if (binary, p) not in _sym_cache]
    if need:
        tool = "llvm-symbolizer-14"
        try:
            r = sh([tool, "-e", binary, "--functions=short", "--no-inlines"] + [hex(p) for p in need])
            blocks = r.stdout.strip().split("\n\n")
        except FileNotFoundError:
            blocks = []
        for p, b in zip(need, blocks):
            lines = b.strip().split("\n")
            fn = lines[0].strip() if lines else "?"
            loc = lines[1].strip() if len(lines) > 1 else "?"
            _sym_cache[(binary, p)] = (fn, loc)
        for p in need:
            _sym_cache.setdefault((binary, p), ("?", "?"))
    for p in pcs:
        out[p] = _sym_cache[(binary, p)]
    return out


def parse_kv(tokens):
    d = {}
    for t in tokens:
        if "=" in t:
            k, v = t.split("=", 1)
            d[k] = v
    return d


class Finding:
    """one violation observed in one run"""

    def __init__(self, world, variant, flavour, run, seed, kind, op, detail, extra=None):
        self.world, self.variant, self.flavour, self.run, self.seed = world, variant, flavour, run, seed
        self.kind, self.op, self.detail = kind, op, detail
        self.extra = extra or {}

    def cls(self):
        k = self.kind
        if k == "race":
            return "race(%s)" % ",".join(sorted(self.extra.get("fns", ["?"])))
        if k in ("asan",):
            return "asan(%s,%s)" % (self.op, self.extra.get("fn", "?"))
        if k in ("crash", "frozen-write", "ro-write", "guard-page"):
            return "%s(%s,%s)" % (k, self.op, self.extra.get("fn", "?"))
        return "%s(%s)" % (k, self.op)


def op_name(binary, opcode):
    return OPNAMES.get(int(opcode), str(opcode))


OPNAMES = {}


def load_opnames():
    # op enum order == op_info order in sim/ops.cpp
    names = []
    src = open(os.path.join(VERIF, "sim", "ops.cpp")).read()
    start = src.index("const OpInfo op_info[OP_NOPS] = {")
    for line in src[start:].split("\n")[1:]:
        line = line.strip()
        if line.startswith("};"):
            break
        if line.startswith('{"'):
            names.append(line.split('"')[1])
    for i, n in enumerate(names):
        OPNAMES[i] = n


def classify_event(binary, world, variant, flavour, line):
    """EVENT run=.. seed=.. FAULT|ASAN|SIMRT-DEADLOCK ..."""
    tok = line.split()
    kv = parse_kv(tok[1:])
    run, seed = int(kv.get("run", -1)), int(kv.get("seed", 0))
    what = tok[3] if len(tok) > 3 else "?"
    op = OPNAMES.get(int(kv.get("op", 0)), "?") if kv.get("call", "-1") != "-1" else "outside-call"
    if kv.get("call") == "-2":
        op = "new/delete (object life cycle)"
    pc = int(kv.get("pc", 0))
    fn, loc = symbolize(binary.replace("world_drd", "world_plain"), [pc])[pc] if pc else ("(outside the main image: libc/runtime)", "?")
    extra = {"fn": fn, "loc": loc, "call": int(kv.get("call", -1)), "raw": " ".join(tok[3:])}
    if what == "TSANREP":
        pcs = [int(kv.get("pc0", 0)), int(kv.get("pc1", 0))]
        sy = symbolize(binary, pcs)
        return Finding(world, variant, flavour, run, seed, "race", "none", "data race reported by ThreadSanitizer before the run exhausted its wall-clock budget: %s (%s) vs %s (%s)" % (sy[pcs[0]][0], sy[pcs[0]][1], sy[pcs[1]][0], sy[pcs[1]][1]),
                       {"fns": [sy[p][0] for p in pcs], "locs": [sy[p][1] for p in pcs]})
    if what == "DRDREP":
        return Finding(world, variant, flavour, run, seed, "race", "none", "conflicting %s of size %s inside %s (%s) on caller-owned operand memory (buffer of task %s) that another thread's library call accesses without ordering (valgrind DRD; no happens-before between the tasks)" % (kv.get("acc"), kv.get("size"), kv.get("fn"), kv.get("loc"), kv.get("owner")),
                       {"fns": [kv.get("fn", "?"), "operand-memory"], "locs": [kv.get("loc", "?")]})
    if what == "RACE-LIMIT":
        return Finding(world, variant, flavour, run, seed, "note", "?", "run ended after four race reports", {})
    if what == "TIMEOUT":
        return Finding(world, variant, flavour, run, seed, "hang", "?", "run did not finish within its wall-clock budget", {"fn": "?"})
    if what == "SIMRT-DEADLOCK":
        return Finding(world, variant, flavour, run, seed, "deadlock", "?", "all live tasks blocked on wrapped primitives", extra)
    if what == "ASAN":
        extra["desc"] = kv.get("desc", "?")
        if kv.get("call", "-1") == "-1":
            return Finding(world, variant, flavour, run, seed, "harness-error", op, line, extra)
        return Finding(world, variant, flavour, run, seed, "asan", op, "AddressSanitizer %s in %s (%s) during %s" % (kv.get("desc"), fn, loc, op), extra)
    if what == "FAULT":
        sig = int(kv.get("sig", 0))
        if kv.get("call", "-1") == "-1":
            return Finding(world, variant, flavour, run, seed, "harness-error", op, line, extra)
        if sig in (11, 7) and kv.get("block", "-1") != "-1":
            off, size = int(kv.get("off", 0)), int(kv.get("size", 0))
            inside = 0 <= off < max(size, 1) and size > 0
            wr = kv.get("write", "1") == "1"
            acc = "write" if wr else "read"
            if kv.get("live") == "0":
                return Finding(world, variant, flavour, run, seed, "guard-page", op, "%s of a released block (use after free / far out of bounds) in %s (%s) during %s" % (acc, fn, loc, op), extra)
            if inside and wr and kv.get("frozen") == "1":
                return Finding(world, variant, flavour, run, seed, "frozen-write", op, "write to an immutable shared object (%s block, offset %s) in %s (%s) during %s" % ("library" if kv.get("islib") == "1" else "harness", kv.get("off"), fn, loc, op), extra)
            if inside and wr and kv.get("ro") == "1":
                return Finding(world, variant, flavour, run, seed, "ro-write", op, "write to a read-only source operand (slot %s, offset %s) in %s (%s) during %s" % (kv.get("owner"), kv.get("off"), fn, loc, op), extra)
            return Finding(world, variant, flavour, run, seed, "guard-page", op, "%s outside the declared extent (block owner %s, offset %s of %s bytes) in %s (%s) during %s" % (acc, kv.get("owner"), kv.get("off"), kv.get("size"), fn, loc, op), extra)
        return Finding(world, variant, flavour, run, seed, "crash", op, "signal %d in %s (%s) during %s" % (sig, fn, loc, op), extra)
    return Finding(world, variant, flavour, run, seed, "crash", op, line, extra)


def run_batch(binary, world, variant, flavour, seed, first, count, workers, thorough, collect):
    """runs indices [first, first+count) split over `workers` zygotes; calls collect(kind, payload) per line"""
    procs = []
    per = (count + workers - 1) // workers
    for w in range(workers):
        f = first + w * per
        c = min(per, first + count - f)
        if c <= 0:
            break
        cmd = [binary, "--world", world, "--variant", str(variant), "--seed", str(seed), "--first", str(f), "--count", str(c)]
        if thorough:
            cmd.append("--thorough")
        procs.append(subprocess.Popen(cmd, stdout=subprocess.PIPE, stderr=subprocess.DEVNULL, text=True, bufsize=1 << 20))
    import queue
    import threading
    q = queue.Queue(maxsize=10000)

    def pump(p):
        for line in p.stdout:
            q.put(line)
        p.wait()
        q.put(None)

    for p in procs:
        threading.Thread(target=pump, args=(p,), daemon=True).start()
    alive = len(procs)
    while alive:
        line = q.get()
        if line is None:
            alive -= 1
            continue
        line = line.rstrip("\n")
        if line.startswith("RESULT "):
            collect("result", json.loads(line[7:]))
        elif line.startswith("EVENT "):
            collect("event", line)
        elif line.startswith("DIED "):
            collect("died", line)


def replay_once(binary, path, extra_args=()):
    r = sh([binary, "--replay", path] + list(extra_args), timeout=400)
    res, events = None, []
    for line in r.stdout.split("\n"):
        if line.startswith("RESULT "):
            res = json.loads(line[7:])
        elif line.startswith(("FAULT", "ASAN", "SIMRT-DEADLOCK", "TSANREP", "DRDREP", "TIMEOUT", "RACE-LIMIT")):
            events.append("EVENT run=-1 seed=0 " + line)
    return res, events, r.returncode


def findings_of(binary, world, variant, flavour, res, events, rc=0):
    out = []
    if res is None and not events and rc != 0:
        hang = rc in (-14, 142)
        out.append(Finding(world, variant, flavour, -1, 0, "hang" if hang else "crash", "?", "replay process ended with status %d" % rc, {"fn": "?"}))
    if res:
        for v in res.get("viol", []):
            if v["kind"] in ("invalid-program", "race"):
                continue  # races are streamed as TSANREP events by the runtime (also when the run does not complete)
            extra = {"call": v.get("call", -1)}
            if v["kind"] == "race":
                pcs = [int(x, 16) for x in v["detail"].split("sites=")[1].split(",")] if "sites=" in v["detail"] else []
                sy = symbolize(binary, pcs)
                extra["fns"] = [sy[p][0] for p in pcs]
                extra["locs"] = [sy[p][1] for p in pcs]
            out.append(Finding(world, variant, flavour, res.get("run", -1), res.get("seed", 0), v["kind"], v["op"], v["detail"], extra))
    for e in events:
        out.append(classify_event(binary, world, variant, flavour, e))
    return out


def merge_streamed_decisions(path):
    """a concurrent world that ended in a fault could not rewrite its replay file with the explicit schedule; the
    decisions were streamed to <path>.dec as they were taken (first scheduling phase = the concurrent one)"""
    dec = path + ".dec"
    if not os.path.exists(dec):
        return
    spec = json.load(open(path))
    if spec.get("sched", {}).get("policy") != "replay":
        phase, out = 0, []
        for line in open(dec):
            t = line.split()
            if not t:
                continue
            if t[0] == "B":
                phase += 1
            elif t[0] == "D" and phase == 1 and len(t) == 4:
                out.append([int(t[1]), int(t[2]), int(t[3])])
        if phase >= 1:
            spec["sched"]["policy"] = "replay"
            spec["sched"]["decisions"] = out
            json.dump(spec, open(path, "w"))
    os.remove(dec)


def drop_calls(prog, idx):
    """removes the calls at array positions idx; repeat_of (an array position) follows"""
    remap, k = {}, 0
    for j in range(len(prog["calls"])):
        if j in idx:
            continue
        remap[j] = k
        k += 1
    calls = []
    for j, c in enumerate(prog["calls"]):
        if j in idx:
            continue
        c["repeat_of"] = remap.get(c.get("repeat_of", -1), -1)
        c["i"] = remap[j]
        calls.append(c)
    prog["calls"] = calls


def minimise(binary, world, variant, flavour, path, target_cls, budget_s=25):
    """greedy delta debugging on the explicit replay file while the same violation class persists"""
    t0 = time.time()
    spec = json.load(open(path))
    tries = 0

    def still_fails(sp):
        nonlocal tries
        tries += 1
        tmp = path + ".cand"
        json.dump(sp, open(tmp, "w"))
        try:
            res, events, rc = replay_once(binary, tmp)
        except subprocess.TimeoutExpired:
            return False
        if res and res.get("status") == "invalid":
            return False
        return any(f.cls() == target_cls for f in findings_of(binary, world, variant, flavour, res, events, rc))

    prog = spec["program"]
    changed = True
    while changed and time.time() - t0 < budget_s:
        changed = False
        # 1. drop whole tasks
        if prog.get("ntasks", 0) > 2:
            for t in range(prog["ntasks"] - 1, -1, -1):
                if time.time() - t0 > budget_s:
                    break
                cand = json.loads(json.dumps(spec))
                idx = {k for k, c in enumerate(cand["program"]["calls"]) if c["task"] == t}
                if not idx:
                    continue
                drop_calls(cand["program"], idx)
                if still_fails(cand):
                    spec, prog, changed = cand, cand["program"], True
        # 2. drop single calls, last first
        i = len(prog["calls"]) - 1
        while i >= 0 and time.time() - t0 < budget_s:
            cand = json.loads(json.dumps(spec))
            drop_calls(cand["program"], {i})
            if still_fails(cand):
                spec, prog, changed = cand, cand["program"], True
            i -= 1
        # 3. drop context switches
        dec = spec.get("sched", {}).get("decisions", [])
        if len(dec) > 1:
            step = max(1, len(dec) // 2)
            while step >= 1 and time.time() - t0 < budget_s:
                j = 0
                while j < len(spec["sched"]["decisions"]) and time.time() - t0 < budget_s:
                    cand = json.loads(json.dumps(spec))
                    del cand["sched"]["decisions"][j:j + step]
                    if still_fails(cand):
                        spec, prog, changed = cand, cand["program"], True
                    else:
                        j += step
                step //= 2
    json.dump(spec, open(path, "w"), indent=None)
    try:
        os.remove(path + ".cand")
    except OSError:
        pass
    return tries, len(prog["calls"]), len(spec.get("sched", {}).get("decisions", []))


def load_known():
    p = os.path.join(VERIF, "known_findings.json")
    if not os.path.exists(p):
        return {"open": [], "fixed": []}
    return json.load(open(p))


def is_known(known, prop, f):
    for k in known.get("open", []):
        if k.get("property") != prop:
            continue
        m = k.get("match", {})
        if m.get("kind") and m["kind"] != f.kind:
            continue
        if m.get("op") and m["op"] != f.op:
            continue
        if m.get("class_contains") and m["class_contains"] not in f.cls():
            continue
        return k
    return None


def main():
    if len(sys.argv) < 3:
        print(__doc__)
        return 64
    prop, tier = sys.argv[1].upper(), sys.argv[2]
    args = sys.argv[3:]
    repo = "/repo"
    workers = min(16, os.cpu_count() or 4)
    runs_override = None
    max_report = 8
    i = 0
    while i < len(args):
        if args[i] == "--runs":
            runs_override = int(args[i + 1]); i += 2
        elif args[i] == "--workers":
            workers = int(args[i + 1]); i += 2
        elif args[i] == "--repo":
            repo = args[i + 1]; i += 2
        else:
            i += 1
    if prop not in PLAN or tier not in ("quick", "thorough"):
        print(__doc__)
        return 64
    seed = int(os.environ.get("VERIF_SEED", "20260927"))
    tier = os.environ.get("VERIF_TIER", tier) if os.environ.get("VERIF_TIER") in ("quick", "thorough") else tier
    thorough = tier == "thorough"
    total_runs = runs_override or RUNS[prop][1 if thorough else 0]
    print("VERIF_SEED=%d property=%s tier=%s runs=%d workers=%d" % (seed, prop, tier, total_runs, workers))
    t_start = time.time()
    load_opnames()
    global REPLAYS
    if os.path.realpath(repo) != "/repo":
        REPLAYS = os.path.join(VERIF, "build", "replays_other")  # violations of another tree (seeded changes) are not /repo's
    os.makedirs(REPLAYS, exist_ok=True)
    os.makedirs(EVID, exist_ok=True)
    os.makedirs(os.path.join(REPLAYS, "tmp"), exist_ok=True)
    known = load_known()

    binaries = {}
    for (_, _, fl, _) in PLAN[prop]:
        if fl not in binaries:
            binaries[fl] = build(fl, repo)
    t_built = time.time()

    agg = collections.Counter()
    ops = collections.Counter()
    status = collections.Counter()
    prog_hashes = set()
    nontrivial = set()
    sched_hashes = set()
    samples = []
    findings = []
    other = collections.Counter()
    per_world = []
    loghash = {}
    nondet = []

    def nontrivial_key(world, st, res):
        # the per-property rule for "distinct and non-trivial" (DESIGN §8)
        if prop == "C12" and world == "c12":
            return ("sched", st.get("sched_hash"), st.get("prog_hash")) if st.get("switches_in_lib", 0) > 0 else None
        if prop == "C15":
            return ("hist", st.get("prog_hash")) if st.get("repeats_checked", 0) > 0 and (st.get("cache_collisions", 0) > 0 or st.get("fresh_twins", 0) > 0) else None
        if prop == "C16":
            return ("prog", st.get("prog_hash")) if st.get("dft_space_calls", 0) > 0 else None
        if prop == "C11":
            return ("prog", st.get("prog_hash")) if st.get("calls", 0) > 0 else None
        if prop == "C18":
            return ("prog", st.get("prog_hash")) if st.get("ro_mappings", 0) > 0 or world == "c12" else None
        if prop == "C07":
            return ("prog", st.get("prog_hash"), st.get("maskA"), st.get("maskB")) if st.get("outputs_compared", 0) > 0 else None
        return None

    first = 0
    for (world, variant, fl, share) in PLAN[prop]:
        n = max(1, int(total_runs * share))
        binary = binaries[fl]
        t0 = time.time()
        w = workers if fl != "asan" else max(1, min(workers, 12))
        local = collections.Counter()

        def collect(kind, payload, world=world, variant=variant, fl=fl, binary=binary, local=local):
            if kind == "result":
                res = payload
                st = res.get("stats", {})
                status[res["status"]] += 1
                local["runs"] += 1
                loghash[(world, variant, fl, res["run"])] = res["log_hash"]
                for k, v in st.items():
                    if isinstance(v, int) and k not in ("prog_hash", "trace_hash", "sched_hash", "max_n", "warm", "tasks", "ntasks", "threads"):
                        agg[k] += v
                    elif k in ("maskA", "policy"):
                        agg["%s=%s" % (k, v)] += 1
                if st.get("warm") is not None and world == "c12":
                    agg["start_state_warm" if st.get("warm") else "start_state_fresh"] += 1
                agg["max_n_seen"] = max(agg["max_n_seen"], st.get("max_n", 0))
                for k, v in st.get("ops", {}).items():
                    ops[k] += v
                prog_hashes.add(st.get("prog_hash"))
                if st.get("sched_hash") is not None:
                    sched_hashes.add((st.get("sched_hash"), st.get("prog_hash")))
                nk = nontrivial_key(world, st, res)
                if nk is not None:
                    nontrivial.add(nk)
                if len(samples) < SAMPLE_LIMIT and res["run"] % 97 == 3:
                    samples.append({"world": world, "variant": variant, "flavour": fl, "run": res["run"], "seed": res["seed"], "status": res["status"],
                                    "masks": [st.get("maskA"), st.get("maskB")], "ntasks": st.get("ntasks"), "program": st.get("digest"),
                                    "sched": {k: st.get(k) for k in ("policy", "sched_steps", "switches", "switches_in_lib", "decisions") if k in st}})
                for f in findings_of(binary, world, variant, fl, res, []):
                    findings.append(f)
            elif kind == "event":
                f = classify_event(binary, world, variant, fl, payload)
                findings.append(f)
                status["fault"] += 1
                local["runs"] += 1
            elif kind == "died":
                kv = parse_kv(payload.split())
                if kv.get("exit") not in ("78", "77", "79", "80", "81"):
                    hang = kv.get("signal") == "14"
                    findings.append(Finding(world, variant, fl, int(kv.get("run", -1)), int(kv.get("seed", 0)), "hang" if hang else "crash", "?",
                                            ("run did not finish within its wall-clock budget: " if hang else "process died: ") + payload, {"fn": "?"}))
                    status["died"] += 1
                    local["runs"] += 1

        run_batch(binary, world, variant, fl, seed, first, n, w, thorough, collect)
        # determinism sample: the first runs again, other worker count; event-log hashes must be identical
        nd = min(n, 120 if not thorough else 1000)
        if fl == "drd":
            nd = min(n, 48 if not thorough else 200)
        before = dict(loghash)

        def collect2(kind, payload, world=world, variant=variant, fl=fl):
            if kind == "result":
                key = (world, variant, fl, payload["run"])
                if key in before and before[key] != payload["log_hash"]:
                    nondet.append(key)

        run_batch(binary, world, variant, fl, seed, first, nd, max(1, w // 3), thorough, collect2)
        if fl == "drd":
            agg["drd_runs"] += local["runs"]
            for lf in glob.glob(os.path.join(BUILD, "drd_logs", "*.log")):
                try:
                    os.remove(lf)
                except OSError:
                    pass
        per_world.append({"world": world, "variant": variant, "flavour": fl, "runs": local["runs"], "first_index": first, "wall_s": round(time.time() - t0, 2),
                          "determinism_rechecked": nd})
        first += n

    if nondet:
        print("MACHINERY-NONDETERMINISM: %d run(s) produced different event-log hashes when repeated: %s" % (len(nondet), nondet[:5]))
        return 2

    # ---- classify, confirm, minimise, gate
    by_class = collections.OrderedDict()
    for f in findings:
        if f.kind == "harness-error":
            print("HARNESS-ERROR (machinery): %s" % f.detail)
            return 2
        if f.kind not in RELEVANT[prop]:
            other["%s:%s" % (f.kind, f.op)] += 1
            continue
        by_class.setdefault(f.cls(), []).append(f)

    race_runs = {(f.world, f.run) for f in findings if f.kind == "race"}
    for cls in list(by_class.keys()):
        if cls.startswith("hang"):
            rest = [f for f in by_class[cls] if (f.world, f.run) not in race_runs]
            if rest:
                by_class[cls] = rest
            else:
                other["hang-in-a-run-that-already-reports-a-race"] += len(by_class[cls])
                del by_class[cls]
    violations = []
    known_hits = []
    unreproduced = []
    exit_code = 0
    stop = False
    for cls, fl_list in by_class.items():
        # candidates: the lowest run indices that showed the class (deterministic whatever order the workers reported in);
        # a candidate that a confirmation hands to another property does not speak for the class: the next one is tried
        cands, seen_runs = [], set()
        for x in sorted(fl_list, key=lambda x: (x.world, x.variant, x.flavour, x.run)):
            if (x.flavour, x.run) not in seen_runs:
                seen_runs.add((x.flavour, x.run))
                cands.append(x)
        cands = cands[:4]
        for ci, f in enumerate(cands):
            last = ci == len(cands) - 1
            reported = False
            binary = binaries[f.flavour]
            base = os.path.join(REPLAYS, "%s_%s_%d" % (prop, hashlib.sha1(cls.encode()).hexdigest()[:10], f.run))
            path = base + ".json"
            # explicit replay file: program + fault plan (+ schedule decisions)
            cmd = [binary, "--world", f.world, "--variant", str(f.variant), "--seed", str(seed), "--one", str(f.run), "--dump", path]
            if thorough:
                cmd.append("--thorough")
            sh(cmd, timeout=400)
            if not os.path.exists(path):
                print("MACHINERY: could not produce a replay file for %s (run %d)" % (cls, f.run))
                return 2
            merge_streamed_decisions(path)
            res, events, rc0 = replay_once(binary, path)
            got = findings_of(binary, f.world, f.variant, f.flavour, res, events, rc0)
            if not any(g.cls() == cls for g in got):
                if f.kind == "hang":
                    # the batch ran 16 worlds at once; alone the run finishes inside its budget: slow, not stuck
                    other["slow-run-not-a-hang"] += len(fl_list) if last else 0
                    continue
                # nothing is reported that does not reproduce from its replay file in a fresh process. On a tree that really
                # races, the first four sanitizer reports of a run (after which the run ends) are not always the same four in
                # the batch (forked from a zygote) and in a fresh process; such a class is dropped here, and the check ends
                # with the machinery exit code only if nothing at all could be reproduced
                if last:
                    unreproduced.append("%s (run %d, replay gave %s)" % (cls, f.run, [g.cls() for g in got][:3]))
                other["unreproduced:%s" % cls] += len(fl_list) if last else 0
                continue
            # confirmations that keep a check from alarming on somebody else's property
            if prop == "C07" and f.kind in ("crash", "guard-page"):
                # a crash belongs to C07 only if it depends on the detected CPU features: the same program with the first
                # mask for both executions, and with the second mask for both: exactly one of the two must crash
                r2, e2, _ = replay_once(binary, path, ["--same-mask"])
                r3, e3, _ = replay_once(binary, path, ["--same-mask-b"])
                if bool(e2 or r2 is None) == bool(e3 or r3 is None):
                    other["crash-independent-of-dispatch:%s" % f.op] += len(fl_list) if last else 0
                    continue
            if prop == "C15" and f.kind in ("crash", "guard-page"):
                # a crash belongs to C15 only if it depends on alignment / previous memory contents
                r2, e2, _ = replay_once(binary, path, ["--calm"])
                if e2 or r2 is None:
                    other["crash-independent-of-memory-plan:%s" % f.op] += len(fl_list) if last else 0
                    continue
            if prop == "C12" and f.kind in ("schedule-dependent-output", "crash", "guard-page", "hang"):
                # pristine serial reference in a fresh process: if it differs from the in-process serial re-execution, the
                # difference is history dependence (C15), not the interleaving
                r2, e2, _ = replay_once(binary, path, ["--serial-only"])
                if f.kind in ("crash", "guard-page", "hang") and (e2 or r2 is None):
                    other["crash-also-serial:%s" % f.op] += len(fl_list) if last else 0
                    continue
                if f.kind == "schedule-dependent-output" and r2 and res and r2.get("task_hash_serial") != res.get("task_hash_serial"):
                    other["history-dependent(serial re-execution differs from pristine serial):%s" % f.op] += len(fl_list) if last else 0
                    continue
            if len(violations) + len(known_hits) < 3 and f.kind != "hang":
                tries, ncalls, ndec = minimise(binary, f.world, f.variant, f.flavour, path, cls)
            else:
                # further classes of the same batch are reported with their un-minimised (still explicit) replay
                sp = json.load(open(path))
                tries, ncalls, ndec = 0, len(sp["program"]["calls"]), len(sp.get("sched", {}).get("decisions", []))
            # gate: two fresh processes, identical event-log hashes, same class
            r1, e1, rc1 = replay_once(binary, path)
            r2, e2, rc2 = replay_once(binary, path)
            g1 = [g.cls() for g in findings_of(binary, f.world, f.variant, f.flavour, r1, e1, rc1)]
            g2 = [g.cls() for g in findings_of(binary, f.world, f.variant, f.flavour, r2, e2, rc2)]
            h1 = r1.get("log_hash") if r1 else "fault:" + ";".join(e1)
            h2 = r2.get("log_hash") if r2 else "fault:" + ";".join(e2)
            if cls not in g1 or cls not in g2 or h1 != h2:
                if last:
                    unreproduced.append("%s (minimised replay %s not stable: %s / %s)" % (cls, path, g1[:3], g2[:3]))
                other["unreproduced:%s" % cls] += len(fl_list) if last else 0
                continue
            k = is_known(known, prop, f)
            rec = {"class": cls, "kind": f.kind, "op": f.op, "detail": f.detail, "runs_hit": len(fl_list), "first_run": f.run, "world": f.world, "flavour": f.flavour,
                   "replay": path, "minimised_calls": ncalls, "minimised_decisions": ndec, "minimiser_replays": tries}
            if k:
                known_hits.append(rec)
                print("KNOWN-FINDING: property=%s %s -- %s" % (prop, cls, k.get("what", "")))
            else:
                violations.append(rec)
                exit_code = 1
                print("VIOLATION property=%s replay=%s" % (prop, path))
                print("  class: %s" % cls)
                print("  first seen: world=%s flavour=%s run=%d (VERIF_SEED=%d), hit in %d run(s); minimised to %d call(s), %d decision(s)" % (f.world, f.flavour, f.run, seed, len(fl_list), ncalls, ndec))
                print("  %s" % f.detail)
                print("  replay: %s --replay %s --verbose" % (binary, path))
            reported = True
            break
        if len(violations) >= max_report:
            break

    if unreproduced:
        if not violations and not known_hits:
            for u in unreproduced[:5]:
                print("MACHINERY: seen in the batch but not reproducible from its replay file: %s" % u)
            return 2
        print("NOTE: %d further class(es) seen in the batch did not reproduce from their replay file in a fresh process and are not reported: %s" % (len(unreproduced), "; ".join(unreproduced[:3])))
    wall = time.time() - t_start
    runs_done = sum(p["runs"] for p in per_world)
    rule = {
        "C07": "one case = one generated API program executed against objects created under two CPU-feature masks; distinct = distinct (program hash, mask pair); non-trivial = at least one output was compared between the two dispatch configurations",
        "C11": "one case = one generated program (all entry points, zero sizes, misaligned exact-extent buffers) executed twice under different garbage/offset plans; distinct = distinct program hash; non-trivial = executed at least one library call",
        "C12": "one case = one world: T real threads released one at a time by the seeded scheduler over a generated multi-task program, followed by a serial re-execution; distinct = distinct (schedule-decision hash, program hash); non-trivial = at least one context switch happened while another task was inside a library call",
        "C15": "one case = one totally ordered call history spread over 1-4 threads; distinct = distinct program hash; non-trivial = at least one repeat comparison and (a thread-local cache-slot collision or a fresh-table twin comparison) happened",
        "C16": "one case = one generated well-typed program checked step by step against the exact integer model; distinct = distinct program hash; non-trivial = contains at least one DFT-space step",
        "C18": "one case = one generated program with every source operand mapped read-only for the duration of each call and objects frozen; distinct = distinct program hash; non-trivial = at least one read-only mapping was applied (or a concurrent world with frozen shared objects)",
    }[prop]
    fault_kinds = {k: v for k, v in agg.items() if k.startswith(("fill_", "off", "ro_mappings", "exact_extent", "adjacent_buffers", "address_reuse", "fpenv_checks", "switches", "window_", "life_windows", "maskA=", "policy=", "start_state", "lock_waits", "fresh_twins", "cache_collisions", "repeats", "column_group", "drd_", "scratch_reused"))}
    evidence = {
        "property_id": prop,
        "tier": tier,
        "seed": seed,
        "level": "exploration",
        "wall_s": round(wall, 2),
        "violations": len(violations),
        "coverage": {
            "evaluations": runs_done,
            "distinct_nontrivial": len(nontrivial),
            "rule": rule,
            "samples": samples[:SAMPLE_LIMIT] if samples else [{"note": "no sample captured"}],
            "distinct_programs": len(prog_hashes),
            "distinct_schedules": len(sched_hashes),
            "runs_per_hour": int(runs_done / max(1e-9, (wall - (t_built - t_start))) * 3600),
            "simulated_time": "none: the library has no clock or timers; scheduler steps are the measure",
            "scheduler_steps": agg.get("sched_steps", 0),
            "library_calls_executed": agg.get("calls", 0),
            "faults_fired": fault_kinds,
            "reach_probes": {k: agg.get(k, 0) for k in ("window_hits", "window_overlap", "static_accesses", "zero_size_operands", "aliased_operands", "ntt120_calls", "dft_space_calls", "model_coeffs_checked", "outputs_compared", "tsan_reports", "lock_waits", "repeat_calls", "repeats_checked", "repeats_cross_thread", "cache_collisions", "fresh_twins", "life_windows", "lib_allocs")},
            "max_ring_dimension_seen": agg.get("max_n_seen", 0),
            "ops_executed": dict(ops.most_common()),
            "run_status": dict(status),
            "worlds": per_world,
            "other_findings_left_to_their_own_property": {k: v for k, v in other.items() if v},
            "known_findings_hit": known_hits,
            "violations": violations,
            "real_code": "every line of libspqlios (C, AVX2/AVX-512 C, .s kernels) built from /repo's working tree by its own CMake; libm",
            "stubs": "allocator (link-time --wrap of the malloc family), CPU feature detection (hook H1), thread scheduling (simulator)",
            "build_s": round(t_built - t_start, 2),
        },
        "assumptions": [
            "seeded sampling of programs, schedules, histories and fault plans: a clean batch is evidence, not proof",
            "clang-14 ThreadSanitizer / sancov do not see accesses wider than 16 bytes nor the .s kernels",
            "the host CPU has every feature the library dispatches on; masks can only hide features",
        ],
    }
    # evidence describes /repo's working tree; runs against another tree (seeded changes, --repo) leave it alone
    evid_dir = EVID if os.path.realpath(repo) == "/repo" else os.path.join(VERIF, "build", "evidence_other")
    os.makedirs(evid_dir, exist_ok=True)
    json.dump(evidence, open(os.path.join(evid_dir, prop + ".json"), "w"), indent=1)
    print("%s %s: %d runs, %d distinct non-trivial, %d violation class(es), %d known, %.1fs" % (prop, tier, runs_done, len(nontrivial), len(violations), len(known_hits), wall))
    return exit_code


if __name__ == "__main__":
    sys.exit(main())
