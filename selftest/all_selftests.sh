#!/bin/bash
# determinism proof, false-alarm hunt, sensitivity + specificity self-tests, in that order
V="$(cd "$(dirname "$0")/.." && pwd)"
python3 $V/selftest/determinism.py 1500 4242 | tail -14
$V/selftest/seed_sweep.sh 12
RUNS="${RUNS:-}" $V/selftest/run_selftests.sh
