#!/usr/bin/env python3
"""Determinism proof of the simulator itself (DESIGN §7): every world, N run seeds, each executed in several
independent batches (1, 4 and 16 zygotes; fresh processes; a different PYTHONHASHSEED for the driver; one batch with
ASLR disabled when setarch is available). Event-log hashes, statuses and verdicts must be identical pairwise.

usage: determinism.py [N] [seed]        exit 0 = all identical, 1 = divergence (printed)
"""
import json
import os
import subprocess
import sys
import threading

VERIF = os.path.dirname(os.path.dirname(os.path.abspath(__file__)))
WORLDS = [("c07", 0, "plain"), ("c11", 0, "asan"), ("c11", 0, "plain"), ("c12", 0, "tsan"), ("c12", 1, "tsan"), ("c12", 1, "drd"), ("c15", 0, "plain"), ("c16", 0, "plain"), ("c16", 1, "plain"), ("c18", 0, "plain")]


def batch(binary, world, variant, seed, n, workers, prefix=()):
    res = {}
    lock = threading.Lock()
    per = (n + workers - 1) // workers
    procs = []
    for w in range(workers):
        f, c = w * per, min(per, n - w * per)
        if c <= 0:
            break
        procs.append(subprocess.Popen(list(prefix) + [binary, "--world", world, "--variant", str(variant), "--seed", str(seed), "--first", str(f), "--count", str(c)],
                                      stdout=subprocess.PIPE, stderr=subprocess.DEVNULL, text=True))

    def pump(p):
        for line in p.stdout:
            if line.startswith("RESULT "):
                j = json.loads(line[7:])
                key = (j["run"], j["status"], j["log_hash"], json.dumps(j["viol"], sort_keys=True), json.dumps(j["task_hash_conc"]), j["stats"].get("trace_hash"), j["stats"].get("sched_hash"))
                with lock:
                    res[j["run"]] = key
            elif line.startswith(("EVENT", "DIED")):
                t = line.split()
                with lock:
                    res.setdefault(int(t[1].split("=")[1]), ("fault", line.strip()))
        p.wait()

    ths = [threading.Thread(target=pump, args=(p,)) for p in procs]
    for t in ths:
        t.start()
    for t in ths:
        t.join()
    return res


def main():
    n = int(sys.argv[1]) if len(sys.argv) > 1 else 2000
    seed = int(sys.argv[2]) if len(sys.argv) > 2 else 777
    for fl in ("plain", "tsan", "asan", "drd"):
        r = subprocess.run([os.path.join(VERIF, "checks", "build_world.sh"), fl])
        if r.returncode:
            return 2
    bad = 0
    noaslr = ["setarch", "-R"] if subprocess.run(["setarch", "-R", "true"], capture_output=True).returncode == 0 else []
    n_all = n
    for (world, variant, fl) in WORLDS:
        binary = os.path.join(VERIF, "build", "world_" + fl)
        n = n_all if fl != "drd" else max(32, n_all // 10)  # valgrind: ~0.2 s per world
        a = batch(binary, world, variant, seed, n, 16)
        b = batch(binary, world, variant, seed, n, 4)
        c = batch(binary, world, variant, seed, n, 1 if n <= 400 else 2, prefix=noaslr)
        diff = [k for k in a if a.get(k) != b.get(k) or a.get(k) != c.get(k)]
        missing = [k for k in range(n) if k not in a or k not in b or k not in c]
        print("%s/%d/%s: %d runs x3 batches, %d divergent, %d missing" % (world, variant, fl, n, len(diff), len(missing)))
        for k in diff[:3]:
            print("   run", k, a.get(k), b.get(k), c.get(k))
        bad += len(diff) + len(missing)
    import glob
    for lf in glob.glob(os.path.join(VERIF, "build", "drd_logs", "*.log")):
        os.remove(lf)
    print("DETERMINISM", "OK" if not bad else "FAILED")
    return 1 if bad else 0


if __name__ == "__main__":
    sys.exit(main())
