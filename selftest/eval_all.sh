#!/bin/bash
# evaluates every seeded change found under /tmp/mut_*/MUTANTS/m* (or the dirs given) against all six checks
# results: /tmp/mut_results/<prop>_<m>.json
V="$(cd "$(dirname "$0")/.." && pwd)"
mkdir -p /tmp/mut_results
LIST="$@"
[ -z "$LIST" ] && LIST=$(ls -d /tmp/mut_C*/MUTANTS/m* 2>/dev/null)
for md in $LIST; do
  wt=$(dirname $(dirname $md)); prop=$(basename $wt | sed 's/mut_//'); m=$(basename $md)
  echo "== $prop $m"
  python3 $V/selftest/eval_mutant.py $wt $md C07,C11,C12,C15,C16,C18 2>&1 | tail -1 > /tmp/mut_results/${prop}_${m}.json
  python3 - <<PY
import json
try:
    j=json.load(open('/tmp/mut_results/${prop}_${m}.json'))
    print(' confirmed=',j.get('confirmed'),'tests_pass=',j.get('tests_pass_with_patch'),'demo_fails=',j.get('mutant_demo_fails_of_3'),'clean_rc=',j.get('clean_demo_rc'), j.get('why',''))
    for c,v in j['checks'].items(): print('  ',c,'exit',v['exit'],v['wall_s'],'s',[x.strip() for x in v['violations'] if 'class' in x][:3])
except Exception as e: print(' parse error',e)
PY
done
