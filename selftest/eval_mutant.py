#!/usr/bin/env python3
"""Confirms a seeded change and runs the checks against it.

usage: eval_mutant.py <worktree> <mutant_dir> <check-id>[,<check-id>...] [--runs N] [--skip-confirm]

<worktree> is a scratch git worktree of /repo (outside /repo and /verif); <mutant_dir> holds patch.diff, the
demonstration and meta.json (demo_build, demo_run). Steps:
  1. clean tree: build, demo must PASS
  2. apply patch: build, the repository's full test-suite must PASS, demo must FAIL
  3. run each named check with --repo <worktree> and report whether it raised a VIOLATION
  4. undo the patch (git checkout -- .)
Prints a JSON summary on the last line.
"""
import json
import os
import subprocess
import sys
import time

VERIF = os.path.dirname(os.path.dirname(os.path.abspath(__file__)))


def sh(cmd, cwd=None, timeout=3600):
    r = subprocess.run(cmd, shell=True, cwd=cwd, stdout=subprocess.PIPE, stderr=subprocess.STDOUT, text=True, timeout=timeout)
    return r.returncode, r.stdout


def build_and_test(wt, run_tests):
    rc, out = sh("cmake -G Ninja -S . -B _build >/dev/null && cmake --build _build 2>&1 | tail -3", cwd=wt)
    if rc != 0:
        return False, "build failed: " + out[-400:]
    if run_tests:
        rc, out = sh("ctest --test-dir _build -j16 --timeout 900 2>&1 | tail -4", cwd=wt)
        if rc != 0 or "100% tests passed" not in out:
            return False, "tests failed: " + out[-400:]
    return True, ""


def main():
    wt, md, checks = sys.argv[1], sys.argv[2], sys.argv[3].split(",")
    runs = None
    skip = "--skip-confirm" in sys.argv
    if "--runs" in sys.argv:
        runs = sys.argv[sys.argv.index("--runs") + 1]
    meta = json.load(open(os.path.join(md, "meta.json")))
    for k in ("demo_build", "demo_run"):
        # some metas append an explanation after the command
        for sep in ("   (", "  (", "  #", " # "):
            if sep in meta[k]:
                meta[k] = meta[k].split(sep)[0]
    summary = {"mutant": md, "property": meta.get("property"), "confirmed": None, "checks": {}}
    sh("git checkout -- . && git clean -fdq spqlios test", cwd=wt)
    if not skip:
        ok, why = build_and_test(wt, False)
        rc_b, out_b = sh(meta["demo_build"], cwd=wt)
        rc_clean, out_clean = sh(meta["demo_run"], cwd=wt, timeout=900)
        summary["clean_demo_rc"] = rc_clean
    rc, out = sh("git apply %s" % os.path.join(md, "patch.diff"), cwd=wt)
    if rc != 0:
        summary["confirmed"] = False
        summary["why"] = "patch does not apply: " + out[-300:]
        print(json.dumps(summary))
        return 1
    try:
        if not skip:
            ok, why = build_and_test(wt, True)
            summary["tests_pass_with_patch"] = ok
            if not ok:
                summary["why"] = why
            rc_b, out_b = sh(meta["demo_build"], cwd=wt)
            fails = 0
            for _ in range(3):
                rc_mut, out_mut = sh(meta["demo_run"], cwd=wt, timeout=900)
                if rc_mut != 0:
                    fails += 1
            summary["mutant_demo_fails_of_3"] = fails
            summary["confirmed"] = bool(ok and summary["clean_demo_rc"] == 0 and fails > 0)
        for c in checks:
            t0 = time.time()
            cmd = "python3 %s/checks/run_check.py %s quick --repo %s" % (VERIF, c, wt)
            if runs:
                cmd += " --runs %s" % runs
            rc, out = sh(cmd, cwd=VERIF, timeout=7200)
            viol = [l for l in out.split("\n") if l.startswith("VIOLATION") or l.startswith("  class:")]
            summary["checks"][c] = {"exit": rc, "violations": viol[:12], "wall_s": round(time.time() - t0, 1), "tail": out.strip().split("\n")[-1][:200]}
    finally:
        sh("git checkout -- . && git clean -fdq spqlios test", cwd=wt)
    print(json.dumps(summary))
    return 0


if __name__ == "__main__":
    sys.exit(main())
