#!/usr/bin/env python3
"""Turns /tmp/mut_results/*.json (written by eval_all.sh) into the catch matrix of DESIGN §7 and records, in each
seeded/<id>/meta.json, what was run and which checks reported the change.

usage: matrix.py [results_dir] > matrix.md
"""
import glob
import json
import os
import sys

VERIF = os.path.dirname(os.path.dirname(os.path.abspath(__file__)))
CHECKS = ["C07", "C11", "C12", "C15", "C16", "C18"]


def seeded_dir(mutant_path):
    # /tmp/mut_C12/MUTANTS/m1 -> C12-m1 ; /tmp/mut2_C12/MUTANTS/m1 -> C12-r2m1 ; /tmp/mut3_... -> r3
    wt = os.path.basename(os.path.dirname(os.path.dirname(mutant_path)))
    m = os.path.basename(mutant_path)
    rnd = wt.split("_")[0].replace("mut", "")
    prop = wt.split("_")[1]
    return "%s-%s%s" % (prop, ("r" + rnd) if rnd else "", m)


def main():
    rd = sys.argv[1] if len(sys.argv) > 1 else "/tmp/mut_results"
    rows = []
    for f in sorted(glob.glob(os.path.join(rd, "*.json"))):
        try:
            j = json.load(open(f))
        except Exception:
            continue
        sd = seeded_dir(j["mutant"])
        caught = {}
        for c in CHECKS:
            v = j["checks"].get(c)
            if not v:
                caught[c] = "-"
            elif v["exit"] == 1:
                cls = [x.strip().replace("class: ", "") for x in v["violations"] if "class:" in x]
                caught[c] = cls[0] if cls else "VIOLATION"
            elif v["exit"] == 0:
                caught[c] = ""
            else:
                caught[c] = "machinery(exit %s)" % v["exit"]
        rows.append((sd, j, caught))
        mp = os.path.join(VERIF, "seeded", sd, "meta.json")
        if os.path.exists(mp):
            meta = json.load(open(mp))
            meta["confirmed_here"] = {
                "clean_tree_demo_exit": j.get("clean_demo_rc"),
                "existing_tests_pass_with_patch": j.get("tests_pass_with_patch"),
                "demo_fails_with_patch (of 3 runs)": j.get("mutant_demo_fails_of_3"),
                "how": "selftest/eval_mutant.py <scratch worktree> <dir> C07,C11,C12,C15,C16,C18 : clean build + demo, git apply, build, ctest (239), demo x3, then every quick check with --repo <worktree>, then git checkout",
            }
            meta["checks_that_report_it"] = {c: v for c, v in caught.items() if v not in ("", "-")}
            json.dump(meta, open(mp, "w"), indent=1)
    print("| seeded change | breaks | needs | confirmed | " + " | ".join(CHECKS) + " |")
    print("|---|---|---|---|" + "---|" * len(CHECKS))
    n_caught = 0
    for sd, j, caught in rows:
        mp = os.path.join(VERIF, "seeded", sd, "meta.json")
        needs = ""
        if os.path.exists(mp):
            needs = json.load(open(mp)).get("needs", "")[:110].replace("|", "/").replace("\n", " ")
        own = j.get("property")
        any_c = any(v not in ("", "-") and not v.startswith("machinery") for v in caught.values())
        n_caught += any_c
        cells = []
        for c in CHECKS:
            v = caught[c]
            cells.append(("**" + v + "**" if c == own else v) if v else ("**miss**" if c == own and not any_c else ""))
        print("| %s | %s | %s | %s | %s |" % (sd, own, needs, "yes" if j.get("confirmed") else "NO", " | ".join(cells)))
    print()
    print("%d of %d seeded changes are reported by at least one check." % (n_caught, len(rows)))


if __name__ == "__main__":
    main()
