#!/usr/bin/env python3
"""Re-runs the six quick checks against every seeded change (seeded/<id>/patch.diff) at the current machinery commit and
refreshes the `checks` part of seeded/eval_results/<name>.json (the confirmation part - clean demo, 239 tests with the
patch, failing demo - does not depend on the machinery and is kept from selftest/eval_mutant.py's run).

usage: recheck_seeded.py <stream index> <number of streams> [out_dir]     (one scratch worktree per stream, removed at the end)
"""
import glob
import json
import os
import re
import subprocess
import sys
import time

VERIF = os.path.dirname(os.path.dirname(os.path.abspath(__file__)))
CHECKS = os.environ.get("RECHECK", "C07,C11,C12,C15,C16,C18").split(",")  # RECHECK=C07 refreshes one column only


def result_name(sid):
    # C12-m1 -> C12_m1 ; C12-r5m1 -> mut5_C12_m1
    m = re.match(r"^(C\d\d)-(?:r(\d))?(m\d)$", sid)
    prop, rnd, mk = m.group(1), m.group(2), m.group(3)
    return ("mut%s_%s_%s" % (rnd, prop, mk)) if rnd else ("%s_%s" % (prop, mk))


def main():
    idx, n = int(sys.argv[1]), int(sys.argv[2])
    out = sys.argv[3] if len(sys.argv) > 3 else "/tmp/recheck_results"
    os.makedirs(out, exist_ok=True)
    wt = "/tmp/wt_recheck_%d_%d" % (idx, os.getpid())
    if subprocess.run(["git", "-C", "/repo", "worktree", "add", "--detach", wt, "HEAD", "-f"], capture_output=True).returncode:
        return 2
    ids = sorted(os.path.basename(d) for d in glob.glob(os.path.join(VERIF, "seeded", "C*-*")) if os.path.exists(os.path.join(d, "patch.diff")))
    mine = [s for k, s in enumerate(ids) if k % n == idx]
    for sid in mine:
        name = result_name(sid)
        prev = os.path.join(VERIF, "seeded", "eval_results", name + ".json")
        rec = json.load(open(prev)) if os.path.exists(prev) else {"mutant": sid, "property": sid[:3], "confirmed": None, "checks": {}}
        subprocess.run(["git", "-C", wt, "checkout", "-q", "--", "."])
        subprocess.run(["git", "-C", wt, "clean", "-fdq"])
        if subprocess.run(["git", "-C", wt, "apply", os.path.join(VERIF, "seeded", sid, "patch.diff")]).returncode:
            print("APPLY-FAILED", sid, flush=True)
            continue
        checks = {}
        for c in CHECKS:
            t0 = time.time()
            r = subprocess.run(["python3", os.path.join(VERIF, "checks", "run_check.py"), c, "quick", "--repo", wt], capture_output=True, text=True)
            lines = r.stdout.split("\n")
            viol = [l for l in lines if l.startswith("VIOLATION") or "class:" in l]
            checks[c] = {"exit": r.returncode, "violations": viol, "wall_s": round(time.time() - t0, 1), "tail": (r.stdout.strip().split("\n") or [""])[-1][:400]}
        rec.setdefault("checks", {}).update(checks)
        rec["checks_rerun_at"] = subprocess.run(["git", "-C", VERIF, "rev-parse", "--short", "HEAD"], capture_output=True, text=True).stdout.strip() or "snapshot"
        json.dump(rec, open(os.path.join(out, name + ".json"), "w"))
        print(sid, {c: v["exit"] for c, v in checks.items()}, flush=True)
    subprocess.run(["git", "-C", wt, "checkout", "-q", "--", "."])
    subprocess.run(["git", "-C", "/repo", "worktree", "remove", "--force", wt])
    return 0


if __name__ == "__main__":
    sys.exit(main())
