#!/bin/bash
# Sensitivity: every patch in selftest/sensitivity/<Cxx>_*.diff must be reported by the check(s) named in its prefix.
# Specificity: every patch in selftest/specificity/ must leave C12 (and C15, C18) silent.
# Uses a scratch worktree outside /repo and /verif, removed at the end.
V="$(cd "$(dirname "$0")/.." && pwd)"
WT=/tmp/wt_selftest_$$
git -C /repo worktree add --detach $WT HEAD -f >/dev/null 2>&1 || exit 2
RUNS="${RUNS:-}"
fail=0
for d in $V/selftest/sensitivity/*.diff; do
  name=$(basename $d .diff)
  checks=$(echo $name | grep -o '^\(C[0-9][0-9]_\)*' | tr '_' ' ')
  git -C $WT checkout -q -- . && git -C $WT apply $d || { echo "APPLY-FAILED $name"; fail=1; continue; }
  for c in $checks; do
    out=$(python3 $V/checks/run_check.py $c quick ${RUNS:+--runs $RUNS} --repo $WT 2>&1); rc=$?
    cls=$(echo "$out" | grep "  class:" | head -2 | tr '\n' ' ')
    if [ $rc -eq 1 ]; then echo "SENSITIVITY ok    $name -> $c: $cls"; else echo "SENSITIVITY MISSED $name -> $c (exit $rc)"; fail=1; fi
  done
done
for d in $V/selftest/specificity/*.diff; do
  name=$(basename $d .diff)
  git -C $WT checkout -q -- . && git -C $WT apply $d || { echo "APPLY-FAILED $name"; fail=1; continue; }
  for c in C12 C15 C18; do
    out=$(python3 $V/checks/run_check.py $c quick ${RUNS:+--runs $RUNS} --repo $WT 2>&1); rc=$?
    if [ $rc -eq 0 ]; then echo "SPECIFICITY ok    $name -> $c silent ($(echo "$out" | tail -1 | cut -c1-80))"; else echo "SPECIFICITY FALSE-ALARM $name -> $c (exit $rc): $(echo "$out" | grep -E 'class:|MACHINERY' | head -3)"; fail=1; fi
  done
done
git -C $WT checkout -q -- . ; git -C /repo worktree remove --force $WT
# leave /verif/build pointing at /repo again
for f in plain tsan asan; do $V/checks/build_world.sh $f >/dev/null 2>&1; done
exit $fail
