#!/bin/bash
# unchanged tree, many VERIF_SEED values: every quick check must exit 0 (false-alarm hunt)
V="$(cd "$(dirname "$0")/.." && pwd)"
N="${1:-12}"; bad=0
for s in $(seq 1 $N); do
  for p in C07 C11 C12 C15 C16 C18; do
    out=$(VERIF_SEED=$((s*7919+13)) python3 $V/checks/run_check.py $p quick 2>&1); rc=$?
    echo "seed=$((s*7919+13)) $p exit=$rc $(echo "$out" | tail -1)"
    if [ $rc -ne 0 ]; then bad=1; echo "$out" | grep -E "VIOLATION|class|MACHINERY|HARNESS" | head -5; fi
  done
done
exit $bad
