#!/bin/bash
# runs every thorough command once on the unchanged tree and reports exit code and wall time
V="$(cd "$(dirname "$0")/.." && pwd)"
cd "$V"
rc=0
for p in ${@:-C07 C11 C15 C16 C18 C12}; do
  t0=$(date +%s)
  out=$(python3 checks/run_check.py $p thorough 2>&1); e=$?
  echo "THOROUGH $p exit=$e wall=$(( $(date +%s) - t0 ))s :: $(echo "$out" | tail -1)"
  echo "$out" | grep -E "VIOLATION|class:|MACHINERY|KNOWN" | head -10
  [ $e -ne 0 ] && rc=1
done
exit $rc
