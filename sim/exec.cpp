// exec.cpp -- executes an explicit Program against the real library inside the simulated memory environment.
#include "world.h"
#include <map>

#include <cmath>

#include "spqlios/arithmetic/vec_znx_arithmetic.h"

extern "C" {
extern int (*spqlios_verif_cpu_hook)(const char* feature, int detected);
}

static int g_mask = MASK_ALL;
static int cpu_hook(const char* feature, int detected) {
  switch (g_mask) {
    case MASK_NONE:
      return 0;
    case MASK_FMA:
      return strcmp(feature, "fma") == 0 ? detected : 0;
    case MASK_AVX2:
      return strcmp(feature, "avx2") == 0 ? detected : 0;
    default:
      return detected;
  }
}
void set_cpu_mask(int mask) {
  g_mask = mask;
  spqlios_verif_cpu_hook = cpu_hook;
}
int get_cpu_mask() { return g_mask; }

Exec::Exec(const Program& p, const ExecEnv& e, Exec* b) : P(p), env(e), base(b) {
  mods.assign(P.modules.size(), nullptr);
  tabs.assign(P.tables.size(), nullptr);
  ptr.assign(P.slots.size(), nullptr);
  bytes.assign(P.slots.size(), 0);
  owned.assign(P.slots.size(), 0);
  out_hash.assign(P.calls.size(), {});
  done.assign(P.calls.size(), 0);
  approx.assign(P.calls.size(), 0);
  if (env.use_model) {
    if (base && base->env.use_model)
      model = base->model;
    else
      model.init(P);
  }
}

Exec::~Exec() { release_all(); }

void Exec::setup_objects() {
  if (base) {
    mods = base->mods;
    tabs = base->tabs;
    ready = true;
    return;
  }
  set_cpu_mask(env.mask);
  lib_mark = sim_lib_alloc_mark();
  // object creation/deletion are library calls too: a fault inside them is attributed to the life-cycle entry point
  const int stask = sim_current_task();
  const int sslot = stask >= 0 && stask < 31 ? stask : 31;
  sim_fctx.cur_call[sslot] = -2;
  sim_fctx.cur_op[sslot] = OP_LIFE_MODULE;
  for (size_t i = 0; i < P.modules.size(); ++i) {
    uint64_t lo = sim_lib_alloc_mark();
    mods[i] = new_module_info(P.modules[i].n, P.modules[i].type ? NTT120 : FFT64);
    obj_seq.push_back({lo, sim_lib_alloc_mark()});
  }
  for (size_t i = 0; i < P.tables.size(); ++i) {
    uint64_t lo = sim_lib_alloc_mark();
    tabs[i] = table_create(P.tables[i]);
    obj_seq.push_back({lo, sim_lib_alloc_mark()});
  }
  ready = true;
  sim_fctx.cur_call[sslot] = -1;
  if (env.protect_sources) sim_freeze_lib_blocks_since(lib_mark);  // modules and tables: immutable from creation to deletion
}

void Exec::release_all() {
  const int rtask = sim_current_task();
  const int rslot = rtask >= 0 && rtask < 31 ? rtask : 31;
  sim_fctx.cur_call[rslot] = -2;
  sim_fctx.cur_op[rslot] = OP_LIFE_MODULE;
  for (size_t i = 0; i < ptr.size(); ++i) {
    if (ptr[i] && owned[i] == 3) {
      ptr[i] = nullptr;
      continue;
    }
    if (ptr[i] && owned[i]) {
      sim_unfreeze(ptr[i]);
      if (owned[i] == 1 && P.slots[i].reserve) {
        uint64_t res = (P.slots[i].reserve + 63) & ~63ull;
        uint8_t* b = P.slots[i].reserve_side == 0 ? ptr[i] : ptr[i] - res;
        sim_unpoison(b, bytes[i] + res);
        sim_release(b);
        ptr[i] = nullptr;
        continue;
      }
      if (owned[i] == 2) {
        const Slot& s = P.slots[i];
        if (s.type == T_BIG)
          delete_vec_znx_big((VEC_ZNX_BIG*)ptr[i]);
        else if (s.type == T_DFT)
          delete_vec_znx_dft((VEC_ZNX_DFT*)ptr[i]);
        else if (s.type == T_PPOL)
          delete_svp_ppol((SVP_PPOL*)ptr[i]);
        else
          delete_vmp_pmat((VMP_PMAT*)ptr[i]);
      } else {
        sim_release(ptr[i]);
      }
      ptr[i] = nullptr;
    }
  }
  if (ptmp) sim_release(ptmp);
  ptmp = nullptr;
  ptmp_cap = 0;
  for (uint8_t* b : group_blocks) sim_release(b);
  group_blocks.clear();
  if (!base) {
    set_cpu_mask(env.mask);
    if (env.protect_sources && (mods.size() || tabs.size())) sim_unfreeze_lib_blocks_since(lib_mark);
    for (size_t i = 0; i < mods.size(); ++i)
      if (mods[i]) {
        delete_module_info((MODULE*)mods[i]);
        mods[i] = nullptr;
      }
    for (size_t i = 0; i < tabs.size(); ++i)
      if (tabs[i]) {
        table_delete(P.tables[i], tabs[i]);
        tabs[i] = nullptr;
      }
    if (env.conservation)
      for (size_t i = 0; i < obj_seq.size(); ++i) {
        int live = sim_lib_live_in_range(obj_seq[i].first, obj_seq[i].second);
        if (live) {
          Violation v;
          v.kind = "leak";
          bool is_mod = i < P.modules.size();
          v.detail = std::string(is_mod ? "new_module_info/delete_module_info" : std::string("new/delete of ") + tab_kind_names[P.tables[i - P.modules.size()].kind] + " precomp") + ": " + std::to_string(live) + " block(s) still allocated after delete";
          v.op = is_mod ? OP_LIFE_MODULE : OP_LIFE_TABLE;
          v.slot = is_mod ? -1 : P.tables[i - P.modules.size()].kind;
          viol.push_back(v);
        }
      }
    obj_seq.clear();
  }
  sim_fctx.cur_call[rslot] = -1;
}

uint64_t Exec::slot_bytes(int slot) const { return slot_alloc_bytes(P, P.slots[slot], mods); }

static bool needs_align16(const Program& P, const Slot& s) {
  if (s.type == T_I128) return true;
  if (s.type == T_BIG && s.mod >= 0 && P.modules[s.mod].type == 1) return true;
  return false;
}

void Exec::place_groups() {
  std::map<int, std::vector<int>> groups;
  for (size_t i = 0; i < P.slots.size(); ++i) {
    const Slot& s = P.slots[i];
    if (s.group >= 0 && s.type == T_ZV && s.gcols > 0 && (uint64_t)s.gidx < s.gcols && s.sl == s.gcols * s.n && !ptr[i]) groups[s.group].push_back((int)i);
  }
  for (auto& kv : groups) {
    const Slot& s0 = P.slots[kv.second[0]];
    uint64_t maxsize = 0;
    bool ok = true;
    for (int si : kv.second) {
      const Slot& s = P.slots[si];
      if (s.n != s0.n || s.gcols != s0.gcols) ok = false;
      if (s.size > maxsize) maxsize = s.size;
    }
    if (!ok || !maxsize) continue;
    const uint64_t total = maxsize * s0.gcols * s0.n * 8;
    uint8_t* b = (uint8_t*)sim_alloc(total, env.calm ? SIM_PLACE_OFFSET : s0.place, env.calm ? 0 : s0.off8, env.calm ? SIM_FILL_ZERO : s0.fill, mix64(s0.dseed ^ 0x6207, (uint64_t)kv.first), kv.second[0]);
    group_blocks.push_back(b);
    for (int si : kv.second) {
      ptr[si] = b + (uint64_t)P.slots[si].gidx * s0.n * 8;
      bytes[si] = slot_bytes(si);
      owned[si] = 3;
      n_group_slots++;
    }
  }
}

uint8_t* Exec::ensure_slot(int si) {
  if (ptr[si]) return ptr[si];
  if (base && base->ptr[si]) {
    ptr[si] = base->ptr[si];
    bytes[si] = base->bytes[si];
    if (P.slots[si].group >= 0) owned[si] = 3;  // a column inside a block shared with other tasks
    return ptr[si];
  }
  const Slot& s = P.slots[si];
  uint64_t nb = slot_bytes(si);
  int place = s.place, off8 = s.off8, fill = s.fill;
  uint64_t fseed = mix64(s.dseed ^ 0xF111, (uint64_t)si);
  if (env.calm) {
    place = SIM_PLACE_OFFSET;
    off8 = 0;
    fill = SIM_FILL_ZERO;
  }
  if (env.vary_memory) {
    uint64_t h = mix64(env.mem_salt, (uint64_t)si);
    off8 = (off8 + 1 + (int)(h % 7)) & 7;
    fill = (fill + 1 + (int)((h >> 8) % (SIM_FILL_NKINDS - 1))) % SIM_FILL_NKINDS;
    place = (h >> 16) % 3 == 0 ? SIM_PLACE_FLUSH_HIGH : SIM_PLACE_OFFSET;
    fseed ^= h;
  }
  if (needs_align16(P, s)) {
    off8 &= ~1;
    if (place == SIM_PLACE_FLUSH_HIGH && (nb & 15)) place = SIM_PLACE_OFFSET;
  }
  uint8_t* p;
  const bool fft64 = s.mod >= 0 && P.modules[s.mod].type == 0;
  if (s.neighbor_of >= 0 && s.neighbor_of < si && !needs_align16(P, s)) {
    // carve this buffer out of the reserve next to its host, touching it
    const Slot& h = P.slots[s.neighbor_of];
    uint8_t* hp = ptr[s.neighbor_of];
    if (hp && owned[s.neighbor_of] == 1 && s.interleaved && s.type == T_ZV && h.type == T_ZV && h.reserve_side == 0 && s.sl == h.sl && s.n == h.n &&
        s.n * 8 + nb <= bytes[s.neighbor_of] + h.reserve) {
      // second column of the host's matrix: same stride, shifted by one polynomial; only its own limbs are pre-filled
      p = hp + s.n * 8;
      sim_unpoison(p, nb);
      for (uint64_t l = 0; l < s.size; ++l) sim_fill(p + l * s.sl * 8, s.n * 8, fill, fseed + l);
      ptr[si] = p;
      bytes[si] = nb;
      owned[si] = 3;
      n_adjacent++;
      goto placed;
    }
    if (hp && owned[s.neighbor_of] == 1 && !s.interleaved && h.reserve >= nb && (nb % 8) == 0 && (bytes[s.neighbor_of] % 8) == 0) {
      p = h.reserve_side == 0 ? hp + bytes[s.neighbor_of] : hp - nb;
      sim_unpoison(p, nb);
      if (nb) sim_fill(p, nb, fill, fseed);
      ptr[si] = p;
      bytes[si] = nb;
      owned[si] = 3;  // lives inside the host's block
      n_adjacent++;
      n_prefill[fill % SIM_FILL_NKINDS]++;
      goto placed;
    }
  }
  if (s.liballoc && fft64 && (s.type == T_BIG || s.type == T_DFT || s.type == T_PPOL || s.type == T_PMAT)) {
    const MODULE* m = (const MODULE*)mods[s.mod];
    // the object comes from the library's own new_*: a fault while it is created or first written (an object smaller
    // than bytes_of_*, a block that somebody else still owns) belongs to the object's life cycle, not to the harness
    const int ltask = sim_current_task();
    const int lslot = ltask >= 0 && ltask < 31 ? ltask : 31;
    const int64_t saved_call = sim_fctx.cur_call[lslot];
    const int saved_op = sim_fctx.cur_op[lslot];
    sim_fctx.cur_call[lslot] = -2;
    sim_fctx.cur_op[lslot] = s.type == T_BIG ? OP_LIFE_BIG : s.type == T_DFT ? OP_LIFE_DFT : s.type == T_PPOL ? OP_LIFE_PPOL : OP_LIFE_PMAT;
    if (s.type == T_BIG)
      p = (uint8_t*)new_vec_znx_big(m, s.size);
    else if (s.type == T_DFT)
      p = (uint8_t*)new_vec_znx_dft(m, s.size);
    else if (s.type == T_PPOL)
      p = (uint8_t*)new_svp_ppol(m);
    else
      p = (uint8_t*)new_vmp_pmat(m, s.size, s.sl);
    if (nb) sim_fill(p, nb, fill, fseed);  // the slot's own garbage plan, independent of what other tasks allocate
    sim_fctx.cur_call[lslot] = saved_call;
    sim_fctx.cur_op[lslot] = saved_op;
    owned[si] = 2;
  } else if (s.reserve) {
    // host of a future neighbour: one block, the reserve stays inaccessible (asan) until the neighbour is carved
    uint64_t res = (s.reserve + 63) & ~63ull;
    uint8_t* b = (uint8_t*)sim_alloc(nb + res, place, off8, fill, fseed, si);
    p = s.reserve_side == 0 ? b : b + res;
    sim_poison(s.reserve_side == 0 ? p + nb : b, res);
    owned[si] = 1;
  } else {
    p = (uint8_t*)sim_alloc(nb, place, off8, fill, fseed, si);
    owned[si] = 1;
  }
  ptr[si] = p;
  bytes[si] = nb;
  n_prefill[fill % SIM_FILL_NKINDS]++;
  if (place == SIM_PLACE_OFFSET)
    n_off[off8 & 7]++;
  else
    n_exact++;
placed:
  if (s.input) {
    if (s.type == T_ZV) {
      int64_t* z = (int64_t*)p;
      for (uint64_t l = 0; l < s.size; ++l)
        for (uint64_t j = 0; j < s.n; ++j) z[l * s.sl + j] = input_value(s.pattern, s.bits, s.dseed, s.nnz, s.n, l * s.n + j);
    } else if (s.type == T_MAT) {
      int64_t* z = (int64_t*)p;
      for (uint64_t l = 0; l < s.size * s.sl; ++l)
        for (uint64_t j = 0; j < s.n; ++j) z[l * s.n + j] = input_value(s.pattern, s.bits, s.dseed, s.nnz, s.n, l * s.n + j);
    } else if (s.type == T_I64) {
      int64_t* z = (int64_t*)p;
      for (uint64_t j = 0; j < s.n; ++j) z[j] = input_value(s.pattern, s.bits, s.dseed, s.nnz, s.n, j);
    } else if (s.type == T_I32) {
      int32_t* z = (int32_t*)p;
      for (uint64_t j = 0; j < s.n; ++j) z[j] = (int32_t)input_value(s.pattern, s.bits > 31 ? 31 : s.bits, s.dseed, s.nnz, s.n, j);
    } else if (s.type == T_U64) {
      uint64_t* z = (uint64_t*)p;
      for (uint64_t j = 0; j < s.n; ++j) {
        uint64_t h = mix64(s.dseed, j);
        uint64_t v;
        if (s.pattern == PAT_ALLMAX)
          v = ~0ull;
        else if (s.pattern == PAT_ALTERNATING)
          v = (j & 1) ? 0 : ~0ull;
        else if (s.pattern == PAT_ZERO)
          v = 0;
        else
          v = h;
        if (s.bits < 64) v &= ((1ull << s.bits) - 1);
        z[j] = v;
      }
    } else if (s.type == T_U32) {
      uint32_t* z = (uint32_t*)p;
      for (uint64_t j = 0; j < s.n; ++j) {
        uint64_t h = mix64(s.dseed, j);
        uint32_t v = s.pattern == PAT_ALLMAX ? 0xFFFFFFFFu : s.pattern == PAT_ZERO ? 0 : (uint32_t)h;
        if (s.bits < 32) v &= ((1u << s.bits) - 1);
        z[j] = v;
      }
    } else if (s.type == T_F64) {
      double* z = (double*)p;
      // value = integer/2^frac so that every double is exactly representable and finite; |x| < 2^bits
      for (uint64_t j = 0; j < s.n; ++j) {
        if (s.pattern >= 100) {
          // near-integer multiples of 2^nnz: (K + f/16) * 2^nnz with |K| < 2^bits, f in [-4,4]: never an exact .5 tie
          const bool ties = s.pattern >= 200;
          int64_t k = input_value(s.pattern - (ties ? 200 : 100), s.bits, s.dseed, 0, s.n, j);
          int64_t f = s.bits > 46 ? 0 : (int64_t)(mix64(s.dseed ^ 0xF00D, j) % 9) - 4;
          if (ties && s.bits <= 46 && (mix64(s.dseed ^ 0x71E5, j) & 3) == 0) f = (mix64(s.dseed, j) & 1) ? 8 : -8;  // exactly k +- 1/2
          z[j] = s.bits > 46 ? ldexp((double)k, s.nnz) : ldexp((double)(k * 16 + f), s.nnz - 4);
        } else {
          int64_t iv = input_value(s.pattern, 40, s.dseed, s.nnz, s.n, j);
          z[j] = ldexp((double)iv, s.bits - 40);
        }
      }
    }
    if (env.use_model) model.load_input(si);
  }
  return p;
}

// ---- helpers on declared extents -------------------------------------------------------------------------------
static uint64_t elem_bytes(const Program& P, const Slot& s) {
  const bool ntt = s.mod >= 0 && P.modules[s.mod].type == 1;
  if (s.type == T_BIG) return ntt ? 16 : 8;
  if (s.type == T_DFT) return ntt ? 32 : 8;
  return 8;
}
// hash of the declared extent (what the call may have written) of operand k
static uint64_t hash_declared(const Program& P, const Call& c, int k, const uint8_t* p, uint64_t nbytes) {
  const Slot& s = P.slots[c.s[k]];
  if (s.type == T_ZV) {
    uint64_t h = 0xcbf29ce484222325ull;
    for (uint64_t l = 0; l < c.sz[k]; ++l) h = hash_bytes(p + l * s.sl * 8, s.n * 8, h);
    return h;
  }
  if (s.type == T_BIG || s.type == T_DFT) return hash_bytes(p, c.sz[k] * s.n * elem_bytes(P, s));
  return hash_bytes(p, nbytes);
}
// hash of everything in the slot outside the declared extent of operand k (padding, trailing limbs)
static uint64_t hash_outside(const Program& P, const Call& c, int k, const uint8_t* p, uint64_t nbytes) {
  const Slot& s = P.slots[c.s[k]];
  uint64_t h = 0xcbf29ce484222325ull;
  if (s.type == T_ZV) {
    uint64_t pos = 0;
    for (uint64_t l = 0; l < c.sz[k]; ++l) {
      uint64_t b = l * s.sl * 8;
      if (b > pos) h = hash_bytes(p + pos, b - pos, h);
      pos = b + s.n * 8;
    }
    if (nbytes > pos) h = hash_bytes(p + pos, nbytes - pos, h);
    return h;
  }
  if (s.type == T_BIG || s.type == T_DFT) {
    uint64_t e = c.sz[k] * s.n * elem_bytes(P, s);
    if (nbytes > e) h = hash_bytes(p + e, nbytes - e, h);
    return h;
  }
  return h;
}
// ASan flavour: make everything outside the union of declared extents of this slot's operands inaccessible
static void poison_outside(const Program& P, const Call& c, int slot, const uint8_t* p, uint64_t nbytes, bool poison) {
  const Slot& s = P.slots[slot];
  const OpInfo& oi = op_info[c.op];
  uint64_t mx = 0;
  bool whole = false;
  for (int k = 0; k < oi.nslots; ++k)
    if (c.s[k] == slot) {
      if (c.op == OP_BIG_RANGE_NORMALIZE && k == 1) whole = true;
      if (c.sz[k] > mx) mx = c.sz[k];
    }
  auto act = [&](const uint8_t* q, uint64_t n) {
    if (!n) return;
    if (poison)
      sim_poison(q, n);
    else
      sim_unpoison(q, n);
  };
  if (s.type == T_ZV) {
    uint64_t pos = 0;
    for (uint64_t l = 0; l < mx; ++l) {
      uint64_t b = l * s.sl * 8;
      if (b > pos) act(p + pos, b - pos);
      pos = b + s.n * 8;
    }
    if (nbytes > pos) act(p + pos, nbytes - pos);
  } else if ((s.type == T_BIG || s.type == T_DFT) && !whole) {
    uint64_t e = mx * s.n * elem_bytes(P, s);
    if (nbytes > e) act(p + e, nbytes - e);
  }
}

static std::string i128_str(i128 v) {
  if (v == 0) return "0";
  bool neg = v < 0;
  u128 u = neg ? (u128)(-(v + 1)) + 1 : (u128)v;
  std::string s;
  while (u) {
    s.insert(s.begin(), (char)('0' + (int)(u % 10)));
    u /= 10;
  }
  return neg ? "-" + s : s;
}

void Exec::run_call(int idx) {
  const Call& c = P.calls[idx];
  const OpInfo& oi = op_info[c.op];
  if (!ready) setup_objects();
  uint8_t* p[5] = {nullptr, nullptr, nullptr, nullptr, nullptr};
  for (int k = oi.nslots - 1; k >= 0; --k) p[k] = ensure_slot(c.s[k]);  // sources first: an output may be carved next to one

  if (env.use_model) {
    std::string why;
    if (!model.admissible(c, &why)) {
      Violation v;
      v.kind = "invalid-program";
      v.detail = "call " + std::to_string(idx) + " (" + oi.name + "): " + why;
      v.call = idx;
      v.op = c.op;
      viol.push_back(v);
      return;
    }
  }

  // scratch: exactly *_tmp_bytes, dirty
  uint8_t* tmp = nullptr;
  uint64_t tmpb = 0;
  if (oi.tmp) {
    tmpb = op_tmp_bytes(P, c, mods);
    int tf = c.tmp_fill, tp = c.tmp_place, to = (int)(mix64(idx, 77) & 7);
    if (env.calm) {
      tf = SIM_FILL_ZERO;
      tp = SIM_PLACE_OFFSET;
      to = 0;
    }
    if (env.vary_memory) {
      uint64_t h = mix64(env.mem_salt ^ 0x7e57, (uint64_t)idx);
      tf = (tf + 1 + (int)(h % (SIM_FILL_NKINDS - 1))) % SIM_FILL_NKINDS;
      to = (int)((h >> 8) & 7);
      tp = (h >> 16) & 1 ? SIM_PLACE_OFFSET : SIM_PLACE_FLUSH_HIGH;
    }
    if (P.persist_tmp && !env.calm && ptmp && tmpb <= ptmp_cap) {
      // the caller's one scratch buffer, with whatever the previous calls left in it
      tmp = ptmp;
      n_tmp_reused++;
    } else {
      tmp = (uint8_t*)sim_alloc(tmpb, tp, to, tf, mix64(env.mem_salt, (uint64_t)idx * 31 + 5), -2 - idx);
      n_prefill[tf % SIM_FILL_NKINDS]++;
      if (P.persist_tmp && !env.calm) {
        if (ptmp) sim_release(ptmp);
        ptmp = tmp;
        ptmp_cap = tmpb;
      }
    }
  }

  // frame: what lies outside the declared output extent must not change
  uint64_t frame_before = 0;
  // (a column whose neighbours are being written by other tasks has no quiescent frame to compare)
  const bool frame = env.check_frame && oi.nslots > 0 && oi.roles[0] != 'i' && !(P.slots[c.s[0]].group >= 0 && owned[c.s[0]] == 3);
  if (frame) frame_before = hash_outside(P, c, 0, p[0], bytes[c.s[0]]);

  // C15 fresh-table twin: snapshot operands of *_simple calls
  std::vector<uint8_t*> twin_copy;
  // instance twin of a table-level call (a quarter of them): the same call on a table built just now from the same
  // parameters, on heap memory with other contents - two tables with equal parameters are equal arguments
  const bool instance_twin = env.fresh_twin && oi.level == 1 && c.tab >= 0 && (mix64(0x7B1ull ^ (uint64_t)idx, P.slots.size()) & 3) == 0;
  if ((env.fresh_twin && oi.level == 2 && oi.twin != OP_NONE) || instance_twin) {
    twin_copy.assign(oi.nslots, nullptr);
    for (int k = 0; k < oi.nslots; ++k) {
      for (int j = 0; j < k; ++j)
        if (c.s[j] == c.s[k]) twin_copy[k] = twin_copy[j];
      if (!twin_copy[k]) {
        uint64_t nb = bytes[c.s[k]];
        twin_copy[k] = (uint8_t*)sim_alloc(nb, SIM_PLACE_OFFSET, (int)(mix64(idx, k) & 7) & ~(P.slots[c.s[k]].type == T_I128 ? 1 : 0), SIM_FILL_ZERO, 0, -1000 - idx);
        memcpy(twin_copy[k], p[k], nb);
      }
    }
  }

  auto shares_block_early = [&](int si) { return owned[si] == 3 || P.slots[si].reserve != 0; };
  // source hashes (second check of C18) and read-only mapping of sources
  uint64_t src_hash[5] = {0, 0, 0, 0, 0};
  bool is_src[5] = {false, false, false, false, false};
  for (int k = 0; k < oi.nslots; ++k) {
    if (oi.roles[k] != 'i') continue;
    bool written = false;
    for (int j = 0; j < oi.nslots; ++j)
      if (j != k && c.s[j] == c.s[k] && oi.roles[j] != 'i') written = true;
    if (written) continue;
    is_src[k] = true;
    // whole block for private blocks; only the operand's own limbs when the block also hosts another buffer
    src_hash[k] = shares_block_early(c.s[k]) ? hash_declared(P, c, k, p[k], bytes[c.s[k]]) : hash_bytes(p[k], bytes[c.s[k]]);
    if (env.protect_sources && !P.slots[c.s[k]].reserve && owned[c.s[k]] != 3) {
      sim_protect(p[k], 1);
      n_protect++;
    }
  }
  auto shares_block = [&](int si) { return owned[si] == 3 || P.slots[si].reserve != 0; };
  if (sim_flavour == SIM_ASAN && env.check_frame)
    for (int k = 0; k < oi.nslots; ++k)
      if (!shares_block(c.s[k])) poison_outside(P, c, c.s[k], p[k], bytes[c.s[k]], true);

  uint64_t life_mark = 0;
  int life_live = 0;
  if (oi.level == 3) {
    life_mark = sim_lib_alloc_mark();
    life_live = sim_lib_live_total();
  }

  const int task = sim_current_task();
  const int fslot = task >= 0 && task < 31 ? task : 31;
  sim_fctx.cur_call[fslot] = idx;
  sim_fctx.cur_op[fslot] = c.op;
  sim_harness_point(1, c.op);
  sim_in_lib(c.op);
#ifdef __x86_64__
  const unsigned csr_before = __builtin_ia32_stmxcsr();
#endif
  op_invoke(P, c, mods, tabs, p, tmp);
#ifdef __x86_64__
  {
    // hidden per-thread state includes the FP control word: no entry point is documented to change rounding mode,
    // flush-to-zero / denormals-are-zero or exception masks (the sticky status flags legitimately change)
    const unsigned csr_after = __builtin_ia32_stmxcsr();
    n_fpenv_checks++;
    if ((csr_before ^ csr_after) & 0xFFC0u) {
      Violation v;
      v.kind = "fp-env-modified";
      char b[160];
      snprintf(b, sizeof b, "%s left the thread's MXCSR control bits changed (0x%04x -> 0x%04x): later results on this thread depend on it", oi.name, csr_before & 0xFFC0u, csr_after & 0xFFC0u);
      v.detail = b;
      v.call = idx;
      v.op = c.op;
      viol.push_back(v);
      __builtin_ia32_ldmxcsr((csr_after & ~0xFFC0u) | (csr_before & 0xFFC0u));  // keep the rest of the run meaningful
    }
  }
#endif
  sim_in_lib(0);
  sim_harness_point(2, c.op);
  sim_fctx.cur_call[fslot] = -1;
  n_calls++;

  if (sim_flavour == SIM_ASAN && env.check_frame)
    for (int k = 0; k < oi.nslots; ++k)
      if (!shares_block(c.s[k])) poison_outside(P, c, c.s[k], p[k], bytes[c.s[k]], false);
  for (int k = 0; k < oi.nslots; ++k)
    if (is_src[k]) {
      if (env.protect_sources && !P.slots[c.s[k]].reserve && owned[c.s[k]] != 3) sim_protect(p[k], 0);
      if ((shares_block_early(c.s[k]) ? hash_declared(P, c, k, p[k], bytes[c.s[k]]) : hash_bytes(p[k], bytes[c.s[k]])) != src_hash[k]) {
        Violation v;
        v.kind = "source-modified";
        v.detail = std::string(oi.name) + ": source operand " + std::to_string(k) + " (" + slot_type_names[P.slots[c.s[k]].type] + ") changed";
        v.call = idx;
        v.op = c.op;
        v.slot = c.s[k];
        viol.push_back(v);
      }
    }
  if (frame && hash_outside(P, c, 0, p[0], bytes[c.s[0]]) != frame_before) {
    Violation v;
    v.kind = "frame-write";
    v.detail = std::string(oi.name) + ": bytes outside the declared output extent (padding / limbs past res_size) were modified";
    v.call = idx;
    v.op = c.op;
    v.slot = c.s[0];
    viol.push_back(v);
  }
  if (oi.level == 3 && op_selfcheck_errors()) {
    Violation v;
    v.kind = "model-mismatch";
    v.detail = std::string(oi.name) + ": " + std::to_string(op_selfcheck_errors()) + " self-check failure(s) (a module instance returned wrong coefficients, or a transform on a built-in buffer differs from the same transform with a table without buffers)";
    v.call = idx;
    v.op = c.op;
    viol.push_back(v);
    op_selfcheck_errors() = 0;
  }
  if (oi.level == 3) {
    n_life++;
    const bool own_bracket = c.op == OP_LIFE_MODULE_PAIR || c.op == OP_LIFE_MODULE_SEQ || c.op == OP_LIFE_TABLE_SEQ;  // these bracket each new/delete pair themselves
    const int pair_leaks = op_leak_errors();
    op_leak_errors() = 0;
    if (sim_current_task() < 0 && (own_bracket ? pair_leaks != 0 : (sim_lib_live_total() != life_live || sim_lib_live_since(life_mark) != 0))) {
      Violation v;
      v.kind = "leak";
      v.detail = std::string(oi.name) + ": " + std::to_string(own_bracket ? pair_leaks : sim_lib_live_since(life_mark)) + " block(s) allocated by new_* still allocated after the matching delete_*";
      v.call = idx;
      v.op = c.op;
      viol.push_back(v);
    }
  }

  // outputs
  auto& oh = out_hash[idx];
  oh.clear();
  for (int k = 0; k < oi.nslots; ++k)
    if (oi.roles[k] == 'o' || oi.roles[k] == 'x') oh.push_back(hash_declared(P, c, k, p[k], bytes[c.s[k]]));
  done[idx] = 1;

  if (env.use_model) {
    model.apply(c);
    if (env.model_compare && oi.level == 0 && op_is_integer_output(P, c, 0)) {
      const MVal& mv = model.v[c.s[0]];
      const Slot& s = P.slots[c.s[0]];
      const bool ntt = s.mod >= 0 && P.modules[s.mod].type == 1;
      const bool big128 = mv.type == T_BIG && ntt;
      uint64_t lim = c.op == OP_SMALL_PRODUCT ? 1 : c.sz[0];
      bool bad = false;
      for (uint64_t l = 0; l < lim && !bad; ++l) {
        for (uint64_t j = 0; j < s.n; ++j) {
          i128 got;
          if (big128) {
            i128 t;
            memcpy(&t, p[0] + (l * s.n + j) * 16, 16);
            got = t;
          } else {
            int64_t t;
            uint64_t stride = mv.type == T_ZV && s.type == T_ZV ? s.sl : s.n;
            memcpy(&t, p[0] + (l * stride + j) * 8, 8);
            got = t;
          }
          n_model_checks++;
          bool differs = got != mv.limbs[l].c[j];
          if (differs && mv.limbs[l].tol > 0) {
            // edge-of-budget product: the documented bound (C01) allows E + 1/2 per coefficient
            i128 d = got - mv.limbs[l].c[j];
            if (d < 0) d = -d;
            differs = (long double)d > ceill(mv.limbs[l].tol);
          }
          if (differs) {
            Violation v;
            v.kind = "model-mismatch";
            v.detail = std::string(oi.name) + ": limb " + std::to_string(l) + " coeff " + std::to_string(j) + " got " + i128_str(got) + " expected " + i128_str(mv.limbs[l].c[j]) +
                       (mv.limbs[l].tol > 0 ? " (allowed error " + std::to_string((long long)ceill(mv.limbs[l].tol)) + ")" : "");
            v.call = idx;
            v.op = c.op;
            v.slot = c.s[0];
            viol.push_back(v);
            bad = true;
            break;
          }
        }
      }
    }
  }

  if (env.use_model && env.model_compare && oi.level == 1 && c.op >= OP_Q120_BAA_REF && c.op <= OP_Q120X2_SAVE) {
    std::string why = q120_reference_check(P, c, p);
    n_model_checks++;
    if (!why.empty()) {
      Violation v;
      v.kind = "model-mismatch";
      v.detail = std::string(oi.name) + ": " + why;
      v.call = idx;
      v.op = c.op;
      viol.push_back(v);
    }
  }
  if (env.use_model && oi.level == 0 && oi.nslots > 0) {
    // a value known only up to a tolerance is a leaf: it does not feed further modelled operations
    MVal& mv = model.v[c.s[0]];
    for (auto& l : mv.limbs)
      if (l.tol > 0) approx[idx] = 1;
    if (mv.type == T_ZV || mv.type == T_BIG)
      for (auto& l : mv.limbs)
        if (l.tol > 0) l.valid = false;
  }
  if (!twin_copy.empty()) {
    // build a fresh table for exactly this call and run the explicit-table twin on the snapshot
    TableSpec ts;
    int old_fill = 0;
    uint64_t old_seed = 0;
    if (instance_twin) {
      ts = P.tables[c.tab];
      sim_get_lib_fill(&old_fill, &old_seed);
      sim_set_lib_fill(SIM_FILL_RANDOM, mix64(old_seed ^ 0x1257, (uint64_t)idx));
    } else {
      ts.kind = op_info[oi.twin].tabkind;
      ts.m = c.p[0];
      ts.divisor = c.dp;
      ts.log2 = (uint32_t)c.p[1];
    }
    sim_fctx.cur_call[fslot] = idx;  // a fault while the twin's table is built or deleted belongs to this call too
    sim_fctx.cur_op[fslot] = c.op;
    void* t = table_create(ts);
    if (instance_twin) sim_set_lib_fill(old_fill, old_seed);
    Program Q;  // a one-call program view for op_invoke
    Call tc = c;
    if (!instance_twin) tc.op = oi.twin;
    tc.tab = 0;
    std::vector<void*> ttabs(1, t);
    sim_fctx.cur_call[fslot] = idx;
    sim_fctx.cur_op[fslot] = tc.op;
    op_invoke(P, tc, mods, ttabs, twin_copy.data(), nullptr);
    table_delete(ts, t);
    sim_fctx.cur_call[fslot] = -1;
    n_twin++;
    for (int k = 0; k < oi.nslots; ++k)
      if ((oi.roles[k] == 'o' || oi.roles[k] == 'x') && memcmp(twin_copy[k], p[k], bytes[c.s[k]]) != 0) {
        Violation v;
        v.kind = "history-dependent-output";
        v.detail = instance_twin ? std::string(oi.name) + " returns other bytes on a second table built from the same parameters"
                                 : std::string(oi.name) + " differs from " + op_info[oi.twin].name + " on a freshly built table";
        v.call = idx;
        v.op = c.op;
        v.slot = c.s[k];
        viol.push_back(v);
      }
    for (int k = 0; k < oi.nslots; ++k) {
      bool dup = false;
      for (int j = 0; j < k; ++j)
        if (twin_copy[j] == twin_copy[k]) dup = true;
      if (!dup) sim_release(twin_copy[k]);
    }
  }
  if (tmp && tmp != ptmp) sim_release(tmp);
}

void Exec::run_range(int task) {
  for (size_t i = 0; i < P.calls.size(); ++i)
    if (P.calls[i].task == task) {
      run_call((int)i);
      for (auto& v : viol)
        if (v.kind == "invalid-program") return;
    }
}

int compare_traces(const Exec& a, const Exec& b, int* operand) {
  for (size_t i = 0; i < a.out_hash.size() && i < b.out_hash.size(); ++i) {
    if (!a.done[i] || !b.done[i]) continue;
    for (size_t k = 0; k < a.out_hash[i].size() && k < b.out_hash[i].size(); ++k)
      if (a.out_hash[i][k] != b.out_hash[i][k]) {
        if (operand) *operand = (int)k;
        return (int)i;
      }
  }
  return -1;
}
