// gen.cpp -- seeded generator of well-typed API programs (DESIGN §3). The generator runs the exact model alongside, so
// that every emitted module-level operation is inside the documented domain of the function it calls.
#include <algorithm>
#include <cmath>

#include "world.h"

namespace {

struct Gen {
  Rng r;
  GenCfg cfg;
  Program P;
  Model M;
  std::vector<uint32_t> ver;  // per slot: bumped on every write
  std::vector<std::vector<uint32_t>> call_src_ver;  // per call: versions of operand slots at call time
  int cur_task = -1;
  std::vector<int> pool_logm;
  std::vector<int> last_slots;  // recently produced values (most recent last)
  bool has_avx2 = true;
  int large_life_focus = -1;
  int storm_focus = -1;
  struct LastParams { uint64_t m; double divisor; uint32_t l2; };
  std::map<std::pair<int, int>, LastParams> last_simple;  // (task, op) -> parameters of the previous call (cache collisions)
  std::map<std::pair<int, int>, LastParams> prev_simple;  // ... and of the call before that (A-B-A patterns)

  Gen(uint64_t seed, const GenCfg& c) : r(seed, 11), cfg(c) { M.init(P); }

  // ------------------------------------------------------------------ slots
  int add_slot(Slot s) {
    s.place = r.chance(50, 100) ? SIM_PLACE_FLUSH_HIGH : (r.chance(90, 100) ? SIM_PLACE_OFFSET : SIM_PLACE_FLUSH_LOW);
    s.off8 = (int)r.below(8);
    s.fill = (int)r.below(SIM_FILL_NKINDS);
    if (!s.dseed) s.dseed = r.next() | 1;
    s.owner = cur_task;
    if (cfg.adjacent_slots && s.type == T_ZV && s.size > 0 && s.sl >= 2 * s.n && r.chance(50, 100)) {
      s.reserve = ((s.n * 8 + 127) / 64) * 64;  // room for a second column of the same matrix (offset N, same stride)
      s.reserve_side = 0;
    } else if (cfg.adjacent_slots && s.type != T_I128 && !(s.type == T_BIG && s.mod >= 0 && P.modules[s.mod].type == 1) && !s.liballoc && r.chance(10, 100)) {
      uint64_t est = est_bytes(s);
      s.reserve = ((2 * est + 127) / 64) * 64;
      if (s.reserve > (1u << 20)) s.reserve = 0;
      s.reserve_side = (int)r.below(2);
    }
    P.slots.push_back(s);
    M.v.push_back(MVal());
    ver.push_back(0);
    return (int)P.slots.size() - 1;
  }
  uint64_t est_bytes(const Slot& s) const {
    const bool ntt = s.mod >= 0 && P.modules[s.mod].type == 1;
    switch (s.type) {
      case T_ZV: return s.size ? ((s.size - 1) * s.sl + s.n) * 8 : 0;
      case T_BIG: return s.size * s.n * (ntt ? 16 : 8);
      case T_DFT: return s.size * s.n * (ntt ? 32 : 8);
      case T_PPOL: return s.n * 8;
      case T_PMAT: case T_MAT: return s.size * s.sl * s.n * 8;
      case T_I32: case T_U32: return s.n * 4;
      case T_I128: return s.n * 16;
      default: return s.n * 8;
    }
  }
  std::vector<uint8_t> host_used;  // per slot: its reserve already hosts a neighbour
  int pick_pattern() {
    uint64_t x = r.below(100);
    if (x < 55) return PAT_RANDOM;
    if (x < 63) return PAT_ALLMAX;
    if (x < 71) return PAT_ALTERNATING;
    if (x < 81) return PAT_SPARSE;
    if (x < 86) return PAT_ZERO;
    if (x < 92) return PAT_SINGLE;
    return PAT_MIXED;
  }
  uint64_t pick_stride(uint64_t n) {
    uint64_t x = r.below(100);
    if (x < 55) return n;
    if (x < 85) return n + 1 + r.below(3);
    if (x < 93) return 2 * n;
    return n + 17;
  }
  uint64_t pick_limbs() {
    uint64_t x = r.below(100);
    if (cfg.zero_sizes && x < 9) return 0;
    if (x < 35) return 1;
    if (x < 65) return 2;
    if (x < 85) return 3;
    if (x < 95) return 4;
    return 5;
  }
  int pick_bits(int lo, int hi) { return (int)r.range(lo, hi); }
  int small_bits(uint64_t n) {
    // keeps one product inside the budget: l1 <= n*2^bits, need (n*2^bits)^2 * 2^10 <= 2^51
    int logn = 0;
    while ((1ull << logn) < n) logn++;
    int mx = (41 - 2 * logn) / 2;
    if (mx < 1) mx = 1;
    if (mx > 16) mx = 16;
    return (int)r.range(1, mx);
  }
  int new_input_zv(int mod, uint64_t size, int bits, int force_pattern = -1, bool sparse_if_big = false) {
    Slot s;
    s.type = T_ZV;
    s.mod = mod;
    s.n = P.modules[mod].n;
    s.size = size;
    s.sl = pick_stride(s.n);
    s.input = 1;
    s.pattern = force_pattern >= 0 ? force_pattern : pick_pattern();
    s.bits = bits;
    s.nnz = 1 + (int)r.below(8);
    // one operand of every product is sparse at large N: keeps the model's O(nnz*nnz) products cheap
    if (sparse_if_big && s.n >= 2048 && s.pattern != PAT_ZERO && s.pattern != PAT_SINGLE) s.pattern = PAT_SPARSE;
    int id = add_slot(s);
    M.load_input(id);
    return id;
  }
  int new_input_mat(int mod, uint64_t rows, uint64_t cols, int bits) {
    Slot s;
    s.type = T_MAT;
    s.mod = mod;
    s.n = P.modules[mod].n;
    s.size = rows;
    s.sl = cols;
    s.input = 1;
    s.pattern = pick_pattern();
    if (s.n >= 2048) s.pattern = PAT_SPARSE;
    s.bits = bits;
    s.nnz = 1 + (int)r.below(6);
    int id = add_slot(s);
    M.load_input(id);
    return id;
  }
  int new_out(int type, int mod, uint64_t size, uint64_t sl = 0) {
    Slot s;
    s.type = type;
    s.mod = mod;
    s.n = mod >= 0 ? P.modules[mod].n : 0;
    s.size = size;
    s.sl = type == T_ZV ? pick_stride(s.n) : sl;
    if (cfg.lib_alloc_slots && mod >= 0 && P.modules[mod].type == 0 && (type == T_BIG || type == T_DFT || type == T_PPOL || type == T_PMAT)) s.liballoc = r.chance(25, 100);
    return add_slot(s);
  }
  int new_raw(int type, uint64_t n, bool input, int bits, int pattern = -1, int scale = 0) {
    Slot s;
    s.type = type;
    s.n = n;
    s.input = input;
    s.bits = bits;
    s.pattern = pattern >= 0 ? pattern : (r.chance(70, 100) ? PAT_RANDOM : pick_pattern());
    s.nnz = scale;
    if (!input) s.pattern = 0;
    return add_slot(s);
  }

  // ------------------------------------------------------------------ access rules
  bool readable(int si) const { return P.slots[si].owner == -1 || P.slots[si].owner == cur_task || cfg.ntasks == 0 || cfg.history_mode; }
  bool writable(int si) const { return P.slots[si].owner == cur_task || cfg.ntasks == 0 || cfg.history_mode; }
  bool all_valid(int si, uint64_t upto) const {
    const MVal& m = M.v[si];
    if (m.type < 0 || m.limbs.size() < upto) return false;
    for (uint64_t i = 0; i < upto; ++i)
      if (!m.limbs[i].valid) return false;
    return true;
  }
  // existing slot whose current logical type is `type`, of module mod
  int find_value(int type, int mod, bool need_writable = false) {
    std::vector<int> cand;
    for (int i = (int)P.slots.size() - 1; i >= 0 && cand.size() < 12; --i) {
      const MVal& m = M.v[i];
      if (m.type != type || P.slots[i].mod != mod) continue;
      if (!readable(i)) continue;
      if (need_writable && !writable(i)) continue;
      if (type != T_PPOL && type != T_PMAT && type != T_MAT && !all_valid(i, m.limbs.size())) continue;
      cand.push_back(i);
    }
    if (cand.empty()) return -1;
    // bias towards the most recent
    size_t k = r.chance(60, 100) ? 0 : r.below(cand.size());
    return cand[k];
  }
  uint64_t cur_limbs(int si) const { return M.v[si].limbs.size(); }

  // ------------------------------------------------------------------ push
  bool push_call(Call c) {
    c.task = cur_task;
    c.tmp_fill = (int)r.below(SIM_FILL_NKINDS);
    c.tmp_place = r.chance(60, 100) ? SIM_PLACE_FLUSH_HIGH : SIM_PLACE_OFFSET;
    std::string why;
    if (!M.admissible(c, &why)) return false;
    const OpInfo& oi = op_info[c.op];
    if (cfg.adjacent_slots && oi.nslots >= 2 && oi.roles[0] == 'o') {
      // a fresh output may be carved right next to one of the call's sources
      Slot& x = P.slots[c.s[0]];
      bool fresh = ver[c.s[0]] == 0 && !x.input && x.neighbor_of < 0 && !x.reserve && !x.liballoc && x.type != T_I128 &&
                   !(x.type == T_BIG && x.mod >= 0 && P.modules[x.mod].type == 1);
      for (int k = 1; fresh && k < oi.nslots; ++k) {
        int y = c.s[k];
        if (y == c.s[0] || y >= c.s[0]) continue;
        if (host_used.size() <= (size_t)y) host_used.resize(P.slots.size(), 0);
        const Slot& hy = P.slots[y];
        if (hy.reserve && !host_used[y] && hy.reserve_side == 0 && hy.type == T_ZV && x.type == T_ZV && hy.sl >= 2 * hy.n && x.n == hy.n && x.size <= hy.size &&
            x.size > 0 && M.v[c.s[0]].type < 0) {
          x.sl = hy.sl;
          x.neighbor_of = y;
          x.interleaved = 1;
          host_used[y] = 1;
          break;
        }
        if (P.slots[y].reserve && !host_used[y] && est_bytes(x) <= P.slots[y].reserve && (est_bytes(x) % 8) == 0 && (est_bytes(P.slots[y]) % 8) == 0) {
          x.neighbor_of = y;
          host_used[y] = 1;
          break;
        }
      }
    }
    std::vector<uint32_t> sv;
    for (int k = 0; k < oi.nslots; ++k) sv.push_back(ver[c.s[k]]);
    M.apply(c);
    for (int k = 0; k < oi.nslots; ++k)
      if (oi.roles[k] != 'i') ver[c.s[k]]++;
    P.calls.push_back(c);
    call_src_ver.push_back(sv);
    if (oi.nslots) last_slots.push_back(c.s[0]);
    return true;
  }

  // ------------------------------------------------------------------ module level
  int64_t pick_p(uint64_t n, bool odd) {
    int64_t p;
    uint64_t x = r.below(100);
    if (x < 15) {
      static const int64_t small[] = {1, 3, 5, 7, -1, -3, 2, 4};
      p = small[r.below(odd ? 6 : 8)];
      return p;
    }
    if (x < 60)
      p = (int64_t)r.below(2 * n);
    else if (x < 80)
      p = -(int64_t)r.below(2 * n + 1);
    else if (x < 90)
      p = (int64_t)(r.next() >> 1) * (r.chance(1, 2) ? 1 : -1);
    else
      p = (int64_t)(r.below(4)) * (int64_t)n + (int64_t)r.below(3) - 1;  // around multiples of N
    if (p == INT64_MIN) p = 1;
    if (odd && !(p & 1)) p += 1;
    if (odd && p == INT64_MIN) p = 1;
    return p;
  }

  // source ZV for module `mod` with at most maxbits, preferring existing values
  int src_zv(int mod, int maxbits, bool prefer_new = false, int want_size = -1) {
    if (!prefer_new && r.chance(55, 100)) {
      int s = find_value(T_ZV, mod);
      if (s >= 0 && (want_size < 0 || (int)cur_limbs(s) == want_size)) {
        bool ok = true;
        i128 lim = ((i128)1) << maxbits;
        for (auto& l : M.v[s].limbs)
          if (poly_linf(l.c) >= lim) ok = false;
        if (ok) return s;
      }
    }
    uint64_t size = want_size >= 0 ? (uint64_t)want_size : pick_limbs();
    int bits = maxbits <= 16 ? (int)r.range(1, maxbits) : (r.chance(65, 100) ? (int)r.range(1, 16) : (int)r.range(1, maxbits));
    return new_input_zv(mod, size, bits);
  }

  bool emit_module_op(int mod, int force_op = -1) {
    const bool ntt = P.modules[mod].type == 1;
    const uint64_t n = P.modules[mod].n;
    // candidate ops
    static const int zv_ops[] = {OP_ZERO, OP_COPY, OP_NEGATE, OP_ADD, OP_SUB, OP_ROTATE, OP_AUTOMORPHISM, OP_NORMALIZE, OP_DFT};
    static const int fft_ops[] = {OP_IDFT, OP_IDFT_TMP_A, OP_BIG_ADD, OP_BIG_SUB, OP_BIG_ADD_SMALL, OP_BIG_ADD_SMALL2, OP_BIG_SUB_SMALL_A, OP_BIG_SUB_SMALL_B,
                                  OP_BIG_SUB_SMALL2, OP_BIG_ROTATE, OP_BIG_AUTOMORPHISM, OP_BIG_NORMALIZE, OP_BIG_RANGE_NORMALIZE, OP_SVP_PREPARE, OP_SVP_APPLY_DFT,
                                  OP_VMP_PREPARE, OP_VMP_APPLY_DFT, OP_VMP_APPLY_DFT_TO_DFT, OP_SMALL_PRODUCT, OP_SVP_APPLY_DFT, OP_VMP_APPLY_DFT, OP_IDFT, OP_BIG_NORMALIZE,
                                  OP_SMALL_PRODUCT, OP_SMALL_PRODUCT};
    int op;
    // consume what exists: DFT values want an inverse transform, BIG values want big arithmetic / normalisation
    int have_dft = find_value(T_DFT, mod), have_big = find_value(T_BIG, mod), have_ppol = find_value(T_PPOL, mod), have_pmat = find_value(T_PMAT, mod);
    uint64_t x = r.below(100);
    if (ntt) {
      if (have_dft >= 0 && x < 50)
        op = r.chance(1, 2) ? OP_IDFT : OP_IDFT_TMP_A;
      else
        op = zv_ops[r.below(sizeof(zv_ops) / sizeof(int))];
    } else if (have_dft >= 0 && x < 35) {
      static const int o[] = {OP_IDFT, OP_IDFT_TMP_A, OP_VMP_APPLY_DFT_TO_DFT, OP_IDFT};
      op = o[r.below(4)];
    } else if (have_big >= 0 && x < 55) {
      static const int o[] = {OP_BIG_ADD, OP_BIG_SUB, OP_BIG_ADD_SMALL, OP_BIG_SUB_SMALL_A, OP_BIG_SUB_SMALL_B, OP_BIG_ROTATE, OP_BIG_AUTOMORPHISM, OP_BIG_NORMALIZE, OP_BIG_RANGE_NORMALIZE, OP_BIG_NORMALIZE};
      op = o[r.below(10)];
    } else if ((have_ppol >= 0 || have_pmat >= 0) && x < 70) {
      op = have_pmat >= 0 && (have_ppol < 0 || r.chance(1, 2)) ? (r.chance(2, 3) ? OP_VMP_APPLY_DFT : OP_VMP_APPLY_DFT_TO_DFT) : OP_SVP_APPLY_DFT;
    } else if (x < 85) {
      op = fft_ops[r.below(sizeof(fft_ops) / sizeof(int))];
    } else {
      op = zv_ops[r.below(sizeof(zv_ops) / sizeof(int))];
    }

    if (force_op >= 0) op = force_op;
    Call c;
    c.op = op;
    c.mod = mod;
    const bool focus_call = force_op >= 0 && cfg.large_world;  // homogeneous work: same entry point, same (in-place) path
    const bool inplace = r.chance(focus_call ? 85 : (cfg.large_world ? 60 : 22), 100);
    auto set = [&](int k, int slot, uint64_t sz) {
      c.s[k] = slot;
      c.sz[k] = sz;
    };
    // an output ZV/BIG that is either fresh or (in place) the source slot
    auto out_or_alias = [&](int type, int src, uint64_t* res_size) -> int {
      if (inplace && src >= 0 && writable(src) && P.slots[src].type == type) {
        uint64_t alloc = P.slots[src].size;
        // in place with res_size possibly different from the aliased size (C13)
        *res_size = r.chance(70, 100) ? cur_limbs(src) : r.below(alloc + 1);
        if (!cfg.zero_sizes && *res_size == 0 && alloc) *res_size = 1;
        return src;
      }
      *res_size = pick_limbs();
      return new_out(type, mod, *res_size);
    };
    switch (op) {
      case OP_ZERO: {
        uint64_t sz = pick_limbs();
        set(0, new_out(T_ZV, mod, sz), sz);
        break;
      }
      case OP_COPY:
      case OP_NEGATE:
      case OP_ROTATE:
      case OP_AUTOMORPHISM: {
        int a = src_zv(mod, 61, focus_call);
        uint64_t rs;
        int res = out_or_alias(T_ZV, a, &rs);
        set(0, res, rs);
        set(1, a, res == a ? std::min<uint64_t>(cur_limbs(a), P.slots[a].size) : cur_limbs(a));
        if (res == a && c.sz[1] > 0 && r.chance(35, 100)) c.sz[1] = r.below(c.sz[1] + 1);  // aliased with a_size < res_size
        if (!cfg.zero_sizes && c.sz[1] == 0 && cur_limbs(a)) c.sz[1] = 1;
        if (op == OP_ROTATE) c.ip = pick_p(n, false);
        if (op == OP_AUTOMORPHISM) c.ip = pick_p(n, true);
        break;
      }
      case OP_ADD:
      case OP_SUB: {
        int a = src_zv(mod, 60), b = src_zv(mod, 60);
        uint64_t rs;
        int al = r.chance(1, 2) ? a : b;
        int res = out_or_alias(T_ZV, al, &rs);
        set(0, res, rs);
        set(1, a, cur_limbs(a));
        set(2, b, cur_limbs(b));
        if ((res == a || res == b) && r.chance(35, 100)) {
          // aliased, and res longer than the operand it aliases (zero extension inside the same buffer)
          int k = res == a ? 1 : 2;
          if (a == b) {
            c.sz[1] = c.sz[2] = r.below(c.sz[1] + 1);
          } else
            c.sz[k] = r.below(c.sz[k] + 1);
          if (!cfg.zero_sizes && c.sz[1] == 0 && cur_limbs(a)) c.sz[1] = 1;
          if (!cfg.zero_sizes && c.sz[2] == 0 && cur_limbs(b)) c.sz[2] = 1;
        }
        break;
      }
      case OP_NORMALIZE: {
        if (r.chance(25, 100)) {
          // many limbs, every digit at the boundary: the carry of the lowest limb has to travel all the way up, also
          // through limbs that are dropped because res is shorter
          uint64_t k = (uint64_t)r.range(1, 62), asz = (uint64_t)r.range(6, 16);
          Slot s0;
          s0.type = T_ZV;
          s0.mod = mod;
          s0.n = n;
          s0.size = asz;
          s0.sl = pick_stride(n);
          s0.input = 1;
          s0.pattern = PAT_CARRY;
          s0.bits = (int)k;
          s0.nnz = (int)asz;
          int a = add_slot(s0);
          M.load_input(a);
          uint64_t rs = r.below(asz + 1);
          if (!cfg.zero_sizes && rs == 0) rs = 1;
          if (r.chance(1, 4)) rs = asz + r.below(3);
          if (!ntt && r.chance(40, 100)) {
            // the same chain through a big vector and the (range) normalisation: lift with big_add_small2(a, 0)
            Call lc;
            lc.op = OP_BIG_ADD_SMALL2;
            lc.mod = mod;
            int z = new_input_zv(mod, 1, 1, PAT_ZERO);
            int bg = new_out(T_BIG, mod, asz);
            lc.s[0] = bg;
            lc.s[1] = a;
            lc.s[2] = z;
            lc.sz[0] = asz;
            lc.sz[1] = asz;
            lc.sz[2] = 1;
            if (!push_call(lc)) return false;
            c.op = r.chance(1, 2) ? OP_BIG_NORMALIZE : OP_BIG_RANGE_NORMALIZE;
            set(0, new_out(T_ZV, mod, rs), rs);
            set(1, bg, asz);
            c.p[0] = k;
            if (c.op == OP_BIG_RANGE_NORMALIZE) {
              // every step-th limb up to and including the last one (which starts the chain)
              c.p[3] = 1 + r.below(3);
              c.p[1] = (asz - 1) % c.p[3];
              c.p[2] = asz;
            }
            break;
          }
          set(0, new_out(T_ZV, mod, rs), rs);
          set(1, a, asz);
          c.p[0] = k;
          break;
        }
        int a = src_zv(mod, 61);
        uint64_t rs;
        int res = out_or_alias(T_ZV, a, &rs);
        set(0, res, rs);
        set(1, a, cur_limbs(a));
        if (res == a && c.sz[1] > 0 && r.chance(35, 100)) c.sz[1] = r.below(c.sz[1] + 1);
        if (!cfg.zero_sizes && c.sz[1] == 0 && cur_limbs(a)) c.sz[1] = 1;
        c.p[0] = r.chance(50, 100) ? (uint64_t)r.range(1, 62) : (uint64_t)r.range(8, 24);
        break;
      }
      case OP_DFT: {
        int a = ntt && r.chance(30, 100) ? new_input_zv(mod, pick_limbs(), 62, PAT_INT64_EDGE) : src_zv(mod, ntt ? 62 : 49);
        uint64_t rs = pick_limbs();
        set(0, new_out(T_DFT, mod, rs), rs);
        set(1, a, cur_limbs(a));
        break;
      }
      case OP_IDFT:
      case OP_IDFT_TMP_A: {
        int a = find_value(T_DFT, mod, op == OP_IDFT_TMP_A);
        if (a < 0) return false;
        if (op == OP_IDFT && inplace && !ntt && writable(a)) {
          uint64_t rs = r.chance(70, 100) ? cur_limbs(a) : r.below(P.slots[a].size + 1);
          if (!cfg.zero_sizes && rs == 0) rs = 1;
          set(0, a, rs);
          set(1, a, cur_limbs(a));
        } else {
          uint64_t rs = pick_limbs();
          set(0, new_out(T_BIG, mod, rs), rs);
          set(1, a, cur_limbs(a));
        }
        break;
      }
      case OP_BIG_ADD:
      case OP_BIG_SUB: {
        int a = find_value(T_BIG, mod), b = find_value(T_BIG, mod);
        if (a < 0 || b < 0) return false;
        uint64_t rs;
        int res = out_or_alias(T_BIG, r.chance(1, 2) ? a : b, &rs);
        set(0, res, rs);
        set(1, a, cur_limbs(a));
        set(2, b, cur_limbs(b));
        if ((res == a || res == b) && r.chance(35, 100)) {
          int k = res == a ? 1 : 2;
          if (a == b)
            c.sz[1] = c.sz[2] = r.below(c.sz[1] + 1);
          else
            c.sz[k] = r.below(c.sz[k] + 1);
          if (!cfg.zero_sizes && c.sz[1] == 0 && cur_limbs(a)) c.sz[1] = 1;
          if (!cfg.zero_sizes && c.sz[2] == 0 && cur_limbs(b)) c.sz[2] = 1;
        }
        break;
      }
      case OP_BIG_ADD_SMALL:
      case OP_BIG_SUB_SMALL_B: {
        int a = find_value(T_BIG, mod);
        if (a < 0) return false;
        int b = src_zv(mod, 59);
        uint64_t rs;
        int res = out_or_alias(T_BIG, a, &rs);
        set(0, res, rs);
        set(1, a, cur_limbs(a));
        set(2, b, cur_limbs(b));
        break;
      }
      case OP_BIG_SUB_SMALL_A: {
        int b = find_value(T_BIG, mod);
        if (b < 0) return false;
        int a = src_zv(mod, 59);
        uint64_t rs;
        int res = out_or_alias(T_BIG, b, &rs);
        set(0, res, rs);
        set(1, a, cur_limbs(a));
        set(2, b, cur_limbs(b));
        break;
      }
      case OP_BIG_ADD_SMALL2:
      case OP_BIG_SUB_SMALL2: {
        int a = src_zv(mod, 59), b = src_zv(mod, 59);
        uint64_t rs = pick_limbs();
        set(0, new_out(T_BIG, mod, rs), rs);
        set(1, a, cur_limbs(a));
        set(2, b, cur_limbs(b));
        break;
      }
      case OP_BIG_ROTATE:
      case OP_BIG_AUTOMORPHISM: {
        int a = find_value(T_BIG, mod);
        if (a < 0) return false;
        uint64_t rs;
        int res = out_or_alias(T_BIG, a, &rs);
        set(0, res, rs);
        set(1, a, cur_limbs(a));
        if (res == a && c.sz[1] > 0 && r.chance(35, 100)) c.sz[1] = r.below(c.sz[1] + 1);
        if (!cfg.zero_sizes && c.sz[1] == 0 && cur_limbs(a)) c.sz[1] = 1;
        c.ip = pick_p(n, op == OP_BIG_AUTOMORPHISM);
        break;
      }
      case OP_BIG_NORMALIZE: {
        int a = find_value(T_BIG, mod);
        if (a < 0) return false;
        uint64_t rs = pick_limbs();
        set(0, new_out(T_ZV, mod, rs), rs);
        set(1, a, cur_limbs(a));
        c.p[0] = r.chance(50, 100) ? (uint64_t)r.range(1, 62) : (uint64_t)r.range(8, 24);
        break;
      }
      case OP_BIG_RANGE_NORMALIZE: {
        int a = find_value(T_BIG, mod);
        if (a < 0) return false;
        uint64_t al = cur_limbs(a);
        uint64_t rs = pick_limbs();
        set(0, new_out(T_ZV, mod, rs), rs);
        set(1, a, al);
        c.p[0] = (uint64_t)r.range(1, 62);
        c.p[3] = 1 + r.below(3);           // step
        c.p[1] = r.below(al + 1);          // begin
        c.p[2] = c.p[1] + r.below(al - c.p[1] + 1);  // end (may select 0 limbs)
        if (!cfg.zero_sizes && c.p[2] == c.p[1]) {
          if (al == 0) return false;
          c.p[1] = 0;
          c.p[2] = al;
        }
        break;
      }
      case OP_SVP_PREPARE: {
        int a = new_input_zv(mod, 1, small_bits(n), -1, true);
        set(0, new_out(T_PPOL, mod, 1), 1);
        set(1, a, 1);
        break;
      }
      case OP_SVP_APPLY_DFT: {
        int pp = find_value(T_PPOL, mod);
        if (pp < 0) return false;
        int a = new_input_zv(mod, pick_limbs(), small_bits(n));
        uint64_t rs = pick_limbs();
        set(0, new_out(T_DFT, mod, rs), rs);
        set(1, pp, 1);
        set(2, a, cur_limbs(a));
        break;
      }
      case OP_VMP_PREPARE: {
        uint64_t rows = 1 + r.below(4), cols = 1 + r.below(5);
        int logn = 0;
        while ((1ull << logn) < n) logn++;
        int mb = (39 - 2 * logn) / 2 - 1;  // leaves room for the sum over rows
        if (mb < 1) mb = 1;
        if (mb > 14) mb = 14;
        int mt = new_input_mat(mod, rows, cols, (int)r.range(1, mb));
        set(0, new_out(T_PMAT, mod, rows, cols), rows);
        set(1, mt, rows);
        c.p[0] = rows;
        c.p[1] = cols;
        break;
      }
      case OP_VMP_APPLY_DFT:
      case OP_VMP_APPLY_DFT_TO_DFT: {
        int pm = find_value(T_PMAT, mod);
        if (pm < 0) return false;
        int a;
        if (op == OP_VMP_APPLY_DFT) {
          int logn = 0;
          while ((1ull << logn) < n) logn++;
          int mb = (39 - 2 * logn) / 2 - 1;
          if (mb < 1) mb = 1;
          if (mb > 14) mb = 14;
          a = new_input_zv(mod, pick_limbs(), (int)r.range(1, mb));
        } else {
          a = find_value(T_DFT, mod);
          if (a < 0) return false;
        }
        uint64_t rs = pick_limbs();
        set(0, new_out(T_DFT, mod, rs), rs);
        set(1, a, cur_limbs(a));
        set(2, pm, M.v[pm].rows);
        c.p[0] = M.v[pm].rows;
        c.p[1] = M.v[pm].cols;
        break;
      }
      case OP_SMALL_PRODUCT: {
        int a = new_input_zv(mod, 1, small_bits(n), -1, true), b = new_input_zv(mod, 1, small_bits(n));
        if (r.chance(10, 100)) b = a;  // a square: the very same buffer as both factors
        // operands are copied into scratch before the output is written: res may be one of them (acc <- s*acc chains)
        uint64_t al = r.below(100);
        set(0, al < 12 ? a : al < 24 ? b : new_out(T_ZV, mod, 1), 1);
        set(1, a, 1);
        set(2, b, 1);
        break;
      }
      default:
        return false;
    }
    return push_call(c);
  }

  // ------------------------------------------------------------------ table level and simple API
  int get_table(int kind, uint64_t m, double divisor = 1, uint32_t l2 = 0) {
    for (size_t i = 0; i < P.tables.size(); ++i)
      if (P.tables[i].kind == kind && P.tables[i].m == m && P.tables[i].divisor == divisor && P.tables[i].log2 == l2) return (int)i;
    TableSpec t;
    t.kind = kind;
    t.m = m;
    t.divisor = divisor;
    t.log2 = l2;
    P.tables.push_back(t);
    return (int)P.tables.size() - 1;
  }
  uint64_t pick_m(uint64_t min_m) {
    for (int tries = 0; tries < 8; ++tries) {
      int lg;
      if (cfg.small_pools && !pool_logm.empty())
        lg = r.pick(pool_logm);
      else if (r.chance((uint32_t)cfg.big_n_pct, 100))
        lg = (int)r.range(cfg.max_log2n, cfg.max_big_log2n - 1);
      else
        lg = (int)r.range(0, cfg.max_log2n - 1);
      if ((1ull << lg) >= min_m) return 1ull << lg;
    }
    return min_m;
  }
  double pick_divisor(uint64_t m) {
    if (r.chance(12, 100)) {
      static const double frac[] = {0.5, 0.25, 0.0625, 1.0 / 1024};
      return frac[r.below(4)];  // any power of two is a legal divisor
    }
    switch (r.below(4)) {
      case 0: return 1;
      case 1: return 2;
      case 2: return (double)m;
      default: return 2.0 * (double)m;
    }
  }
  static int ilog2d(double d) {
    int e = 0;
    frexp(d, &e);
    return e - 1;
  }

  // two consecutive convenience calls of one function at m = 2^16 and 2^17 (either order): per-dimension state that is
  // indexed by a truncated log2(m) aliases exactly there (all other dimensions of a run are far smaller)
  int force_op = -1;
  uint64_t force_m = 0;
  bool emit_huge_pair() {
    static const int ops[] = {OP_REIM_FFT, OP_CPLX_FFT, OP_REIM_IFFT, OP_CPLX_IFFT, OP_REIM_FROM_ZNX64, OP_CPLX_FROM_ZNX32, OP_REIM_TO_ZNX64};
    force_op = ops[r.below(7)];
    const bool up = r.chance(1, 2);
    force_m = up ? (1ull << 16) : (1ull << 17);
    bool ok = emit_table_op(true);
    force_m = up ? (1ull << 17) : (1ull << 16);
    ok = emit_table_op(true) && ok;
    force_m = 0;
    force_op = -1;
    return ok;
  }

  // emits one table-level call, or (simple==true) its *_simple twin
  bool emit_table_op(bool simple) {
    struct K {
      int op;
      int weight;
    };
    static const K kinds[] = {{OP_REIM_FFT, 10}, {OP_REIM_IFFT, 10}, {OP_REIM_MUL, 8}, {OP_REIM_ADDMUL, 8}, {OP_REIM_FROM_ZNX64, 7}, {OP_REIM_TO_ZNX64, 10},
                              {OP_REIM_TO_TNX, 6}, {OP_CPLX_FFT, 8}, {OP_CPLX_IFFT, 8}, {OP_CPLX_MUL, 6}, {OP_CPLX_ADDMUL, 6}, {OP_CPLX_FROM_ZNX32, 5},
                              {OP_CPLX_FROM_TNX32, 5}, {OP_CPLX_TO_TNX32, 8}, {OP_R4_MUL, 5}, {OP_R4_ADDMUL, 5}, {OP_R4_FROM_CPLX, 4}, {OP_R4_TO_CPLX, 4}};
    int tot = 0;
    for (auto& k : kinds) tot += k.weight;
    int pick = (int)r.below((uint64_t)tot), op = OP_REIM_FFT;
    for (auto& k : kinds) {
      if (pick < k.weight) {
        op = k.op;
        break;
      }
      pick -= k.weight;
    }
    if (simple && cfg.simple_storm) {
      static const int storm_ops[] = {OP_CPLX_FFT, OP_CPLX_IFFT, OP_REIM_FFT, OP_REIM_IFFT, OP_REIM_MUL, OP_CPLX_MUL, OP_REIM_TO_ZNX64, OP_CPLX_TO_TNX32, OP_REIM_FROM_ZNX64, OP_CPLX_FROM_ZNX32, OP_R4_MUL};
      if (storm_focus < 0) storm_focus = storm_ops[r.below(11)];
      op = r.chance(85, 100) ? storm_focus : storm_ops[r.below(11)];
    }
    if (simple && op_info[op].twin == OP_NONE) op = OP_REIM_TO_ZNX64;
    if (simple && cfg.small_pools && r.chance(36, 100)) {
      static const int cached[] = {OP_REIM_TO_ZNX64, OP_CPLX_TO_TNX32, OP_REIM_FROM_ZNX64};  // twins whose tables depend on more than m
      op = cached[r.below(3)];
    }
    if (force_op >= 0) op = force_op;
    const bool r4 = op >= OP_R4_MUL && op <= OP_R4_TO_CPLX;
    uint64_t m = pick_m(r4 ? 4 : 1);
    if (simple && cfg.simple_storm) m = 1ull << r.range(r4 ? 2 : 0, 11);  // a dozen dimensions in one process
    // deliberate cache-slot collisions: stay on the previous call's dimension (and often divisor) on this thread
    const std::pair<int, int> lkey(cur_task, op);
    const bool collide = simple && cfg.small_pools && last_simple.count(lkey) && r.chance(65, 100);
    // return to the parameters of the call before the previous one (A-B-A), keeping the previous call's bound: state that
    // is shared between dimensions goes stale exactly there
    const bool aba = collide && prev_simple.count(lkey) && prev_simple[lkey].m != last_simple[lkey].m && r.chance(40, 100);
    if (collide) m = aba ? prev_simple[lkey].m : last_simple[lkey].m;
    if (force_m) m = force_m;
    const LastParams cref = aba ? prev_simple[lkey] : (collide ? last_simple[lkey] : LastParams{0, 1, 0});
    Call c;
    double divisor = 1;
    uint32_t l2 = 0;
    const int vb = (int)r.range(1, 30);  // magnitude of floating inputs
    switch (op) {
      case OP_REIM_FFT:
      case OP_REIM_IFFT:
      case OP_CPLX_FFT:
      case OP_CPLX_IFFT:
        // 6 %: data entirely in the subnormal range (multiples of 2^-1070 below 2^-1030): a transform that runs with
        // flush-to-zero / denormals-are-zero returns zeros where the portable one returns the transform
        c.s[0] = new_raw(T_F64, 2 * m, true, cfg.tiny_values && r.chance(6, 100) ? -(int)r.range(1030, 1033) : vb);
        break;
      case OP_REIM_MUL:
      case OP_CPLX_MUL:
      case OP_R4_MUL: {
        const bool tiny = cfg.tiny_values && r.chance(20, 100);  // products land in the subnormal range
        int a = new_raw(T_F64, 2 * m, true, tiny ? -(int)r.range(500, 520) : vb), b = new_raw(T_F64, 2 * m, true, tiny ? -(int)r.range(500, 520) : (int)r.range(1, 30));
        uint64_t al = r.below(100);
        if (r.chance(8, 100)) b = a;  // the same vector as both factors (a square)
        c.s[1] = a;
        c.s[2] = b;
        c.s[0] = al < 12 ? a : al < 24 ? b : new_raw(T_F64, 2 * m, false, 0);
        break;
      }
      case OP_REIM_ADDMUL:
      case OP_CPLX_ADDMUL:
      case OP_R4_ADDMUL:
        c.s[0] = new_raw(T_F64, 2 * m, true, vb);
        c.s[1] = new_raw(T_F64, 2 * m, true, (int)r.range(1, 20));
        c.s[2] = new_raw(T_F64, 2 * m, true, (int)r.range(1, 20));
        break;
      case OP_REIM_FROM_ZNX64: {
        // documented domain: all coefficients strictly below 2^log2bound in absolute value
        static const uint32_t bnds[] = {50, 50, 45, 31, 30, 20, 8, 0};
        l2 = r.chance(1, 2) ? bnds[r.below(8)] : (uint32_t)r.range(0, 50);
        c.s[0] = new_raw(T_F64, 2 * m, false, 0);
        c.s[1] = new_raw(T_I64, 2 * m, true, l2 == 0 ? 0 : (r.chance(1, 2) ? (int)l2 : (int)r.range(1, (int)l2)));
        break;
      }
      case OP_REIM_TO_ZNX64: {
        divisor = collide && r.chance(aba ? 90 : 60, 100) ? cref.divisor : pick_divisor(m);
        static const uint32_t bnds[] = {49, 50, 51, 63};
        l2 = bnds[r.below(4)];
        if (aba && r.chance(70, 100)) l2 = last_simple[lkey].l2;
        // |x/d| < 2^kb: inside the fast variant's window for bounds <= 50, up to the wide variant's documented window
        // (2^52) above. (Observed while building this: for odd integers x/d in [2^52,2^53) the avx2 wide kernel is off by
        // one because x + d/2 is a rounding tie there; that binade is outside the window and is not generated.)
        // Beyond 2^46 the generated values are exact integer multiples of the divisor (no fractional part, no .5 ties).
        int kb = l2 <= 50 ? (int)r.range(1, 46) : (r.chance(collide ? 60 : 33, 100) ? (int)r.range(49, 52) : (int)r.range(1, 46));
        c.s[0] = new_raw(T_I64, 2 * m, false, 0);
        c.s[1] = new_raw(T_F64, 2 * m, true, kb, PAT_RANDOM, ilog2d(divisor));
        P.slots[c.s[1]].pattern = 100 + (r.chance(1, 2) ? PAT_RANDOM : PAT_MIXED);  // near-integer multiples of the divisor
        if (cfg.allow_ties && kb <= 46 && r.chance(25, 100)) P.slots[c.s[1]].pattern += 100;  // 200+: exact .5 ties allowed
        break;
      }
      case OP_REIM_TO_TNX: {
        divisor = pick_divisor(m);
        l2 = (uint32_t)r.range(0, 27);
        c.s[0] = new_raw(T_F64, 2 * m, false, 0);
        c.s[1] = new_raw(T_F64, 2 * m, true, ilog2d(divisor) + (int)l2);
        break;
      }
      case OP_CPLX_FROM_ZNX32:
      case OP_CPLX_FROM_TNX32:
        c.s[0] = new_raw(T_F64, 2 * m, false, 0);
        c.s[1] = new_raw(T_I32, 2 * m, true, (int)r.range(1, 31));
        break;
      case OP_CPLX_TO_TNX32: {
        divisor = collide && r.chance(aba ? 90 : 60, 100) ? cref.divisor : pick_divisor(m);
        static const uint32_t ovh[] = {0, 17, 18, 19, 19, 24, 30};
        l2 = ovh[r.below(cfg.small_pools ? 4 : 7)];
        if (cfg.small_pools && r.chance(1, 4)) l2 = ovh[4 + r.below(3)];
        if (aba && r.chance(70, 100)) l2 = last_simple[lkey].l2;
        // x = d*(K + f/16)/2^32 with |K| < 2^kb, i.e. |x/d| < 2^(kb-32) <= 2^log2overhead (the documented domain); beyond
        // 2^46 K is used without fractional part (exact torus values, no ties)
        int kbmax = 32 + (int)l2 > 62 ? 62 : 32 + (int)l2;
        int kb = r.chance(collide ? 60 : 33, 100) ? (int)r.range(kbmax > 3 ? kbmax - 2 : 1, kbmax) : (int)r.range(1, kbmax < 46 ? kbmax : 46);
        c.s[0] = new_raw(T_I32, 2 * m, false, 0);
        c.s[1] = new_raw(T_F64, 2 * m, true, kb, PAT_RANDOM, ilog2d(divisor) - 32);
        P.slots[c.s[1]].pattern = 100 + PAT_RANDOM;
        break;
      }
      case OP_R4_FROM_CPLX:
      case OP_R4_TO_CPLX:
        c.s[0] = new_raw(T_F64, 2 * m, false, 0);
        c.s[1] = new_raw(T_F64, 2 * m, true, vb);
        break;
    }
    if (simple) {
      if (last_simple.count(lkey)) prev_simple[lkey] = last_simple[lkey];
      last_simple[lkey] = LastParams{m, divisor, l2};
      c.op = op_info[op].twin;
      c.p[0] = m;
      c.p[1] = l2;
      c.dp = divisor;
    } else {
      c.op = op;
      c.tab = get_table(op_info[op].tabkind, m, divisor, l2);
    }
    return push_call(c);
  }

  bool emit_q120_op() {
    Call c;
    uint64_t x = r.below(100);
    if (r.chance(8, 100)) return emit_coeff_pair(false);
    if (x < 25) {
      uint64_t n = 1ull << r.range(0, cfg.thorough ? 12 : 8);
      c.op = r.chance(1, 2) ? OP_Q120_NTT : OP_Q120_INTT;
      c.tab = get_table(c.op == OP_Q120_NTT ? TB_Q120_NTT : TB_Q120_INTT, n);
      c.s[0] = new_raw(T_U64, 4 * n, true, 64, r.chance(75, 100) ? PAT_RANDOM : (r.chance(1, 2) ? PAT_ALLMAX : PAT_ALTERNATING));
      return push_call(c);
    }
    if (x < 70) {
      static const int ops[] = {OP_Q120_BAA_REF, OP_Q120_BAA_AVX2, OP_Q120_BBB_REF, OP_Q120_BBB_AVX2, OP_Q120_BBC_REF, OP_Q120_BBC_AVX2,
                                OP_Q120X2_1COL_REF, OP_Q120X2_1COL_AVX2, OP_Q120X2_2COLS_REF, OP_Q120X2_2COLS_AVX2};
      c.op = ops[r.below(10)];
      uint64_t ell = r.chance(8, 100) ? 0 : (r.chance(5, 100) ? (uint64_t)r.range(1000, 10000) : (uint64_t)r.range(1, 40));
      c.p[0] = ell;
      int pat = r.chance(70, 100) ? PAT_RANDOM : PAT_ALLMAX;
      c.tab = get_table(op_info[c.op].tabkind, 0);
      if (c.op == OP_Q120_BAA_REF || c.op == OP_Q120_BAA_AVX2) {
        c.s[0] = new_raw(T_U64, 4, false, 0);
        c.s[1] = new_raw(T_U64, 4 * ell, true, 32, pat);
        c.s[2] = new_raw(T_U64, 4 * ell, true, 32, pat);
      } else if (c.op == OP_Q120_BBB_REF || c.op == OP_Q120_BBB_AVX2) {
        c.s[0] = new_raw(T_U64, 4, false, 0);
        c.s[1] = new_raw(T_U64, 4 * ell, true, 64, pat);
        c.s[2] = new_raw(T_U64, 4 * ell, true, 64, pat);
      } else if (c.op == OP_Q120_BBC_REF || c.op == OP_Q120_BBC_AVX2) {
        c.s[0] = new_raw(T_U64, 4, false, 0);
        c.s[1] = new_raw(T_U64, 4 * ell, true, 64, pat);
        c.s[2] = new_raw(T_U32, 8 * ell, true, 32, pat);
      } else if (c.op == OP_Q120X2_1COL_REF || c.op == OP_Q120X2_1COL_AVX2) {
        c.s[0] = new_raw(T_U64, 8, false, 0);
        c.s[1] = new_raw(T_U64, 8 * ell, true, 64, pat);
        c.s[2] = new_raw(T_U32, 16 * ell, true, 32, pat);
      } else {
        c.s[0] = new_raw(T_U64, 16, false, 0);
        c.s[1] = new_raw(T_U64, 8 * ell, true, 64, pat);
        c.s[2] = new_raw(T_U32, 32 * ell, true, 32, pat);
      }
      return push_call(c);
    }
    if (x >= 90) {
      // block extract / save (two coefficients per block)
      uint64_t nn = 2 * (uint64_t)r.range(1, 40), blk = r.below(nn / 2);
      c.p[0] = nn;
      c.p[1] = blk;
      switch (r.below(4)) {
        case 0:
          c.op = OP_Q120X2_EXTRACT_B;
          c.s[0] = new_raw(T_U64, 8, false, 0);
          c.s[1] = new_raw(T_U64, 4 * nn, true, 64);
          break;
        case 1:
          c.op = OP_Q120X2_EXTRACT_C;
          c.s[0] = new_raw(T_U32, 16, false, 0);
          c.s[1] = new_raw(T_U32, 8 * nn, true, 32);
          break;
        case 2: {
          uint64_t rows = r.below(5);
          c.op = OP_Q120X2_EXTRACT_CONTIG;
          c.p[2] = rows;
          c.s[0] = new_raw(T_U64, 8 * rows, false, 0);
          c.s[1] = new_raw(T_U64, 4 * nn * rows, true, 64);
          break;
        }
        default:
          c.op = OP_Q120X2_SAVE;
          c.s[0] = new_raw(T_U64, 4 * nn, true, 64);
          c.s[1] = new_raw(T_U64, 8, true, 64);
      }
      return push_call(c);
    }
    uint64_t nn = r.chance(8, 100) ? 0 : (uint64_t)r.range(1, 70);
    c.p[0] = nn;
    switch (r.below(6)) {
      case 0:
        c.op = OP_Q120_B_FROM_ZNX64;
        c.s[0] = new_raw(T_U64, 4 * nn, false, 0);
        c.s[1] = new_raw(T_I64, nn, true, 62);
        break;
      case 1:
        c.op = OP_Q120_C_FROM_ZNX64;
        c.s[0] = new_raw(T_U32, 8 * nn, false, 0);
        c.s[1] = new_raw(T_I64, nn, true, 62);
        break;
      case 2:
        c.op = OP_Q120_C_FROM_B;
        c.s[0] = new_raw(T_U32, 8 * nn, false, 0);
        c.s[1] = new_raw(T_U64, 4 * nn, true, 64);
        break;
      case 3:
        c.op = OP_Q120_B_TO_ZNX128;
        c.s[0] = new_raw(T_I128, nn, false, 0);
        c.s[1] = new_raw(T_U64, 4 * nn, true, 64);
        break;
      case 4:
        c.op = OP_Q120_ADD_BBB;
        c.s[0] = new_raw(T_U64, 4 * nn, false, 0);
        c.s[1] = new_raw(T_U64, 4 * nn, true, 64);
        c.s[2] = new_raw(T_U64, 4 * nn, true, 64);
        break;
      default:
        c.op = OP_Q120_ADD_CCC;
        c.s[0] = new_raw(T_U32, 8 * nn, false, 0);
        c.s[1] = new_raw(T_U32, 8 * nn, true, 32);
        c.s[2] = new_raw(T_U32, 8 * nn, true, 32);
    }
    return push_call(c);
  }

  // exported kernel twins the caller selects by symbol: the same operands go to the _ref and the _avx2 product
  bool emit_q120_pair() {
    static const int refs[] = {OP_Q120_BAA_REF, OP_Q120_BBB_REF, OP_Q120_BBC_REF, OP_Q120X2_1COL_REF, OP_Q120X2_2COLS_REF};
    Call c;
    c.op = refs[r.below(5)];
    uint64_t ell = r.chance(6, 100) ? 0 : (r.chance(4, 100) ? (uint64_t)r.range(1000, 10000) : (uint64_t)r.range(1, 40));
    c.p[0] = ell;
    int pat = r.chance(70, 100) ? PAT_RANDOM : PAT_ALLMAX;
    c.tab = get_table(op_info[c.op].tabkind, 0);
    uint64_t on = 4;
    if (c.op == OP_Q120_BAA_REF) {
      c.s[1] = new_raw(T_U64, 4 * ell, true, 32, pat);
      c.s[2] = new_raw(T_U64, 4 * ell, true, 32, pat);
    } else if (c.op == OP_Q120_BBB_REF) {
      c.s[1] = new_raw(T_U64, 4 * ell, true, 64, pat);
      c.s[2] = new_raw(T_U64, 4 * ell, true, 64, pat);
    } else if (c.op == OP_Q120_BBC_REF) {
      c.s[1] = new_raw(T_U64, 4 * ell, true, 64, pat);
      c.s[2] = new_raw(T_U32, 8 * ell, true, 32, pat);
    } else if (c.op == OP_Q120X2_1COL_REF) {
      on = 8;
      c.s[1] = new_raw(T_U64, 8 * ell, true, 64, pat);
      c.s[2] = new_raw(T_U32, 16 * ell, true, 32, pat);
    } else {
      on = 16;
      c.s[1] = new_raw(T_U64, 8 * ell, true, 64, pat);
      c.s[2] = new_raw(T_U32, 32 * ell, true, 32, pat);
    }
    c.s[0] = new_raw(T_U64, on, false, 0);
    if (!push_call(c)) return false;
    Call d = c;
    d.op = c.op + 1;  // the _avx2 twin follows its _ref in the op table
    d.s[0] = new_raw(T_U64, on, false, 0);
    d.repeat_of = (int)P.calls.size() - 1;
    return push_call(d);
  }

  // exported coefficient kernels, ref then avx on identical operands (some outputs in place / misaligned by the slot plan)
  bool emit_coeff_pair(bool pair) {
    static const int refs[] = {OP_ZNX_ADD_REF, OP_ZNX_SUB_REF, OP_ZNX_NEG_REF, OP_RNX_DIV_REF};
    Call c;
    c.op = refs[r.below(4)];
    if (!pair && r.chance(1, 2)) c.op++;
    const uint64_t nn = 1ull << r.range(0, cfg.thorough ? 12 : 9);
    c.p[0] = nn;
    const bool rnx = c.op >= OP_RNX_DIV_REF;
    if (rnx) {
      static const double ms[] = {1, 2, 4, 8, 16, 64, 1024, 65536, 3, 7, 1e9, 0.5};
      double m = ms[r.below(12)];
      memcpy(&c.p[1], &m, 8);
      c.s[1] = new_raw(T_F64, nn, true, (int)r.range(1, 50));
      c.s[0] = new_raw(T_F64, nn, false, 0);
    } else {
      const int bits = (int)r.range(1, 61);
      c.s[1] = new_raw(T_I64, nn, true, bits);
      if (c.op < OP_ZNX_NEG_REF) c.s[2] = r.chance(10, 100) ? c.s[1] : new_raw(T_I64, nn, true, bits);
      c.s[0] = new_raw(T_I64, nn, false, 0);
    }
    if (!push_call(c)) return false;
    if (!pair) return true;
    Call d = c;
    d.op = c.op + 1;  // the _avx twin follows its _ref in the op table
    d.s[0] = new_raw(rnx ? T_F64 : T_I64, nn, false, 0);
    d.repeat_of = (int)P.calls.size() - 1;
    return push_call(d);
  }

  // exported floating-point kernels that no dispatch site selects, on operands for which every intermediate value is exactly
  // representable ((K + f/16) with |K| < 2^15, at most 32 terms): whatever the order of the operations and whether or not
  // they are fused, the exact result is the only correct answer, so the twins are compared for numerical equality
  bool emit_exact_kernel_pair() {
    Call c;
    const int exact_pat = 100 + PAT_RANDOM;
    if (r.chance(1, 2)) {
      const bool two = r.chance(1, 2);
      c.op = two ? OP_R4_2COLS_REF : OP_R4_1COL_REF;
      const uint64_t nrows = r.chance(10, 100) ? 0 : (uint64_t)r.range(1, 32);
      c.p[0] = nrows;
      c.s[1] = new_raw(T_F64, (nrows + 1) * 8, true, 15, exact_pat, 0);
      c.s[2] = new_raw(T_F64, (nrows + 1) * (two ? 16 : 8), true, 15, exact_pat, 0);
      c.s[0] = new_raw(T_F64, two ? 16 : 8, false, 0);
      if (!push_call(c)) return false;
      Call d = c;
      d.op = c.op + 1;
      d.s[0] = new_raw(T_F64, two ? 16 : 8, false, 0);
      d.repeat_of = (int)P.calls.size() - 1;
      return push_call(d);
    }
    const uint64_t m = 1ull << r.range(3, 9);
    c.op = OP_CPLX_ADDMUL_KREF;
    c.tab = get_table(TB_CPLX_ADDMUL, m);
    c.s[0] = new_raw(T_F64, 2 * m, true, 15, exact_pat, 0);
    c.s[1] = new_raw(T_F64, 2 * m, true, 15, exact_pat, 0);
    c.s[2] = new_raw(T_F64, 2 * m, true, 15, exact_pat, 0);
    if (!push_call(c)) return false;
    const int ref_idx = (int)P.calls.size() - 1;
    for (int k = 1; k <= 2; ++k) {
      Call d = c;
      d.op = c.op + k;
      Slot twin = P.slots[c.s[0]];  // the accumulator starts from the same contents
      twin.reserve = 0;
      twin.neighbor_of = -1;
      d.s[0] = add_slot(twin);
      d.repeat_of = ref_idx;
      if (!push_call(d)) return false;
    }
    return true;
  }

  bool emit_life_op() {
    Call c;
    if (cfg.large_world && !P.modules.empty()) {
      // object creation at the dimension of the world's modules: threshold-dependent table construction, concurrently.
      // Most tasks of one world create the same kind of object (focus), so that first constructions overlap.
      const uint64_t n = P.modules[r.below(P.modules.size())].n;
      if (large_life_focus < 0) large_life_focus = (int)r.below(8);
      const int kind_sel = r.chance(75, 100) ? large_life_focus : (int)r.below(8);
      if (kind_sel < 2) {
        c.op = OP_LIFE_MODULE;
        c.p[0] = n;
        c.p[1] = cfg.ntt120 && kind_sel == 0;
        return push_call(c);
      }
      if (kind_sel >= 2) {
        static const int kinds8[] = {0, 0, TB_Q120_NTT, TB_Q120_INTT, TB_REIM_FFT, TB_REIM_IFFT, TB_CPLX_FFT, TB_CPLX_IFFT};
        c.op = OP_LIFE_TABLE;
        c.p[0] = (uint64_t)kinds8[kind_sel];
        c.p[1] = kind_sel <= 3 ? n : n / 2;
        c.dp = 1;
        return push_call(c);
      }
      if (r.chance(1, 2)) {
        c.op = r.chance(3, 4) ? OP_LIFE_MODULE : OP_LIFE_MODULE_PAIR;
        c.p[0] = n;
        c.p[1] = cfg.ntt120 && r.chance(1, 2);
        c.p[2] = r.below(2);
        c.p[3] = r.below(1000);
      } else {
        static const int kinds[] = {TB_Q120_NTT, TB_Q120_INTT, TB_REIM_FFT, TB_REIM_IFFT, TB_CPLX_FFT, TB_CPLX_IFFT};
        c.op = OP_LIFE_TABLE;
        c.p[0] = (uint64_t)kinds[r.below(6)];
        c.p[1] = c.p[0] <= TB_Q120_INTT && c.p[0] >= TB_Q120_NTT ? n : n / 2;
        c.dp = 1;
      }
      return push_call(c);
    }
    uint64_t lk = r.below(11);
    if (lk == 10) {
      c.op = OP_LIFE_TABLE_SEQ;
      c.p[0] = r.next() >> 8;
      c.p[1] = (uint64_t)r.range(8, 48);
      c.p[2] = r.below(9);
      c.p[3] = r.chance(8, 100) ? (uint64_t)r.range(10, 13) : (uint64_t)r.range(2, cfg.max_log2n + 1);
      return push_call(c);
    }
    if (lk == 9) {
      c.op = OP_LIFE_MODULE_SEQ;
      c.p[0] = r.next() >> 8;
      c.p[1] = (uint64_t)r.range(6, 18);
      c.p[2] = cfg.ntt120 ? (r.chance(1, 3) ? 1 : (r.chance(1, 2) ? 2 : 0)) : 0;
      c.p[3] = r.chance(10, 100) ? (uint64_t)r.range(12, 14) : (uint64_t)r.range(3, cfg.max_log2n + 1);  // dimensions 2..2^p3, small and large mixed
      return push_call(c);
    }
    if (lk == 8) {
      c.op = OP_LIFE_MODULE_PAIR;
      c.p[0] = 1ull << (r.chance(5, 100) ? r.range(12, 14) : r.range(1, cfg.max_log2n + 2));
      c.p[1] = cfg.ntt120 && r.chance(1, 4);
      c.p[2] = r.below(2);
      c.p[3] = r.below(1000);
      return push_call(c);
    }
    if (lk == 6) {
      c.op = OP_LIFE_ALLOC;
      c.p[0] = r.chance(1, 10) ? 0 : (uint64_t)r.range(1, 5000);
      static const uint64_t als[] = {0, 0, 16, 32, 64, 128};
      c.p[1] = als[r.below(6)];
      if (c.p[1]) c.p[0] = (c.p[0] + c.p[1] - 1) / c.p[1] * c.p[1];  // aligned_alloc wants a multiple of the alignment
      return push_call(c);
    }
    if (lk == 7) {
      c.op = OP_LIFE_FFT_BUFFERS;
      c.p[0] = r.below(4);
      c.p[1] = 1ull << (r.chance(15, 100) ? r.range(10, 12) : r.range(0, cfg.max_log2n + 2));
      c.p[2] = r.below(3);
      return push_call(c);
    }
    switch (lk) {
      case 0:
        c.op = OP_LIFE_MODULE;
        c.p[0] = 1ull << (r.chance(5, 100) ? r.range(12, 14) : r.range(1, cfg.max_log2n + 2));  // sometimes past the large-N thresholds
        c.p[1] = cfg.ntt120 && r.chance(1, 3);
        break;
      case 1:
      case 2:
      case 3:
      case 4: {
        if (P.modules.empty()) return false;
        int mod = (int)r.below(P.modules.size());
        if (P.modules[mod].type == 1) return false;  // bytes_of_* are not provided for NTT120
        static const int ops[] = {OP_LIFE_DFT, OP_LIFE_BIG, OP_LIFE_PPOL, OP_LIFE_PMAT};
        c.op = ops[r.below(4)];
        c.mod = mod;
        c.p[0] = c.op == OP_LIFE_PMAT ? 1 + r.below(4) : pick_limbs();
        c.p[1] = 1 + r.below(4);
        break;
      }
      default: {
        c.op = OP_LIFE_TABLE;
        int kind = (int)r.below(TB_NKINDS);
        uint64_t m = 1ull << (r.chance(5, 100) ? r.range(11, 14) : r.range(kind >= TB_R4_MUL && kind <= TB_R4_TO_CPLX ? 2 : 0, cfg.max_log2n + 3));
        c.p[0] = (uint64_t)kind;
        c.p[1] = m;
        c.dp = pick_divisor(m);
        c.p[2] = kind == TB_REIM_FROM_ZNX64 ? 50 : kind == TB_REIM_TO_ZNX64 ? 63 : 18;
      }
    }
    return push_call(c);
  }

  // C15: re-issue an earlier call with equal arguments (fresh outputs, other memory plan, maybe another thread)
  bool emit_repeat() {
    if (P.calls.empty()) return false;
    for (int tries = 0; tries < 6; ++tries) {
      int i = (int)r.below(P.calls.size());
      const Call& o = P.calls[i];
      const OpInfo& oi = op_info[o.op];
      if (oi.level == 3 || oi.nslots == 0 || o.repeat_of >= 0) continue;
      Call c = o;
      c.repeat_of = i;
      bool ok = true;
      std::map<int, int> remap;
      for (int k = 0; k < oi.nslots && ok; ++k) {
        int si = o.s[k];
        if (remap.count(si)) {
          c.s[k] = remap[si];
          continue;
        }
        const Slot& s = P.slots[si];
        // was this slot written by the call (role o/x/d at any position)?
        bool written = false, has_in = false;
        for (int j = 0; j < oi.nslots; ++j)
          if (o.s[j] == si) {
            if (oi.roles[j] != 'i') written = true;
            if (oi.roles[j] != 'o') has_in = true;
          }
        if (!written) {
          // pure source: value must be unchanged since call i
          if (ver[si] != call_src_ver[i][k] || !readable(si)) ok = false;
          remap[si] = si;
          c.s[k] = si;
        } else if (!has_in) {
          Slot ns = s;
          ns.input = 0;
          ns.dseed = 0;
          int id = add_slot(ns);
          remap[si] = id;
          c.s[k] = id;
        } else {
          // in/out operand: only repeatable when the pre-call content was a harness input never touched before
          if (!(s.input && call_src_ver[i][k] == 0)) {
            ok = false;
            break;
          }
          Slot ns = s;  // same input spec => equal argument values; add_slot draws a new memory plan
          int id = add_slot(ns);
          if (ns.type == T_ZV || ns.type == T_MAT) M.load_input(id);
          remap[si] = id;
          c.s[k] = id;
        }
      }
      if (!ok) continue;
      if (push_call(c)) return true;
    }
    return false;
  }

  int add_module() {
    ModuleSpec m;
    int lg;
    if (cfg.large_world)
      lg = (int)r.range(12, 14);
    else if (r.chance((uint32_t)cfg.big_n_pct, 100))
      lg = (int)r.range(cfg.max_log2n + 1, cfg.max_big_log2n);
    else
      lg = (int)r.range(1, cfg.max_log2n);
    m.n = 1ull << lg;
    m.type = cfg.ntt120 && r.chance(22, 100);
    P.modules.push_back(m);
    return (int)P.modules.size() - 1;
  }

  // a product at the edge of the documented 52-bit budget: a monomial of ba bits times a dense polynomial of 52-ba bits;
  // the result (coefficients up to 2^52) is compared within the documented error bound instead of exactly
  bool emit_edge_product(int mod) {
    if (P.modules[mod].type == 1) return false;
    const int ba = (int)r.range(3, 49), bb = 52 - ba;
    if (r.chance(1, 2)) {
      Call c;
      c.op = OP_SMALL_PRODUCT;
      c.mod = mod;
      int a = new_input_zv(mod, 1, ba, PAT_SINGLE), b = new_input_zv(mod, 1, bb > 49 ? 49 : bb, PAT_RANDOM);
      if (r.chance(1, 2)) std::swap(a, b);
      c.s[0] = new_out(T_ZV, mod, 1);
      c.s[1] = a;
      c.s[2] = b;
      c.sz[0] = c.sz[1] = c.sz[2] = 1;
      c.p[3] = 1;
      return push_call(c);
    }
    Call pc;
    pc.op = OP_SVP_PREPARE;
    pc.mod = mod;
    pc.s[0] = new_out(T_PPOL, mod, 1);
    pc.s[1] = new_input_zv(mod, 1, ba, PAT_SINGLE);
    pc.sz[0] = pc.sz[1] = 1;
    if (!push_call(pc)) return false;
    Call c;
    c.op = OP_SVP_APPLY_DFT;
    c.mod = mod;
    uint64_t as = 1 + r.below(3), rs = 1 + r.below(3);
    c.s[0] = new_out(T_DFT, mod, rs);
    c.s[1] = pc.s[0];
    c.s[2] = new_input_zv(mod, as, bb > 49 ? 49 : bb, PAT_RANDOM);
    c.sz[0] = rs;
    c.sz[1] = 1;
    c.sz[2] = as;
    c.p[3] = 1;
    if (!push_call(c)) return false;
    Call ic;
    ic.op = r.chance(1, 2) ? OP_IDFT : OP_IDFT_TMP_A;
    ic.mod = mod;
    uint64_t bs = 1 + r.below(3);
    ic.s[0] = new_out(T_BIG, mod, bs);
    ic.s[1] = c.s[0];
    ic.sz[0] = bs;
    ic.sz[1] = rs;
    return push_call(ic);
  }

  bool emit_any() {
    uint64_t x = r.below(100);
    if (cfg.history_mode && cfg.simple_ops && r.chance(3, 10000)) return emit_huge_pair();
    if (cfg.edge_products && cfg.module_ops && !P.modules.empty() && r.chance(4, 100)) return emit_edge_product((int)r.below(P.modules.size()));
    int wm = cfg.module_ops ? 55 : 0, wt = cfg.table_ops ? 20 : 0, ws = cfg.simple_ops ? 20 : 0, wq = cfg.q120 ? 8 : 0, wl = cfg.life_ops ? 8 : 0,
        wr = cfg.repeats ? 30 : 0;
    if (cfg.simple_storm) return emit_table_op(true);
    if (cfg.large_world) {
      if (cfg.life_ops && x < 45) return emit_life_op();
      return emit_module_op((int)r.below(P.modules.size()));
    }
    int wk = cfg.kernel_pairs ? 8 : 0;
    int tot = wm + wt + ws + wq + wl + wr + wk;
    int v = (int)(x * (uint64_t)tot / 100);
    if (v >= tot - wk) return r.chance(25, 100) ? emit_exact_kernel_pair() : (r.chance(35, 100) ? emit_coeff_pair(true) : emit_q120_pair());
    if (v < wm) return emit_module_op((int)r.below(P.modules.size()));
    v -= wm;
    if (v < wt) return emit_table_op(false);
    v -= wt;
    if (v < ws) return emit_table_op(true);
    v -= ws;
    if (v < wq) return emit_q120_op();
    v -= wq;
    if (v < wl) return emit_life_op();
    return emit_repeat();
  }

  void run() {
    int nm = cfg.module_ops ? (cfg.small_pools ? 2 + (int)r.below(2) : 1 + (int)r.chance(30, 100)) : 0;
    for (int i = 0; i < nm; ++i) add_module();
    if (cfg.small_pools) {
      int k = 3 + (int)r.below(2);
      for (int i = 0; i < k; ++i) pool_logm.push_back((int)r.range(0, cfg.max_log2n));
    }
    P.ntasks = cfg.ntasks;
    P.persist_tmp = r.chance(25, 100);
    if (cfg.ntasks == 0) {
      cur_task = -1;
      int want = (int)r.range(cfg.min_calls, cfg.max_calls);
      for (int tries = 0; (int)P.calls.size() < want && tries < want * 12; ++tries) emit_any();
      return;
    }
    if (cfg.history_mode) {
      int want = (int)r.range(cfg.min_calls, cfg.max_calls);
      for (int tries = 0; (int)P.calls.size() < want && tries < want * 12; ++tries) {
        cur_task = (int)r.below((uint64_t)cfg.ntasks);
        emit_any();
      }
      cur_task = -1;
      return;
    }
    if (cfg.shared_setup) {
      cur_task = -1;
      // shared, later frozen: prepared scalars/matrices, DFT vectors, inputs
      for (int mod = 0; mod < nm; ++mod) {
        if (P.modules[mod].type == 1) {
          new_input_zv(mod, 1 + r.below(3), (int)r.range(1, 60));
          emit_module_op(mod, OP_DFT);
          continue;
        }
        static const int setup_ops[] = {OP_SVP_PREPARE, OP_VMP_PREPARE, OP_DFT, OP_VMP_PREPARE, OP_SVP_PREPARE, OP_SVP_APPLY_DFT, OP_BIG_ADD_SMALL2};
        int want = 3 + (int)r.below(4);
        for (int t = 0; t < want; ++t) emit_module_op(mod, setup_ops[r.below(7)]);
        new_input_zv(mod, 1 + r.below(3), small_bits(P.modules[mod].n));
      }
    }
    // swarm: per program a few "focus" entry points that most tasks call, so that first uses of the same function by
    // different threads overlap (that is where lazily built hidden state lives)
    static const int focus_pool[] = {OP_SMALL_PRODUCT, OP_SVP_APPLY_DFT, OP_VMP_APPLY_DFT, OP_VMP_APPLY_DFT_TO_DFT, OP_IDFT, OP_DFT, OP_NORMALIZE,
                                     OP_BIG_NORMALIZE, OP_SVP_PREPARE, OP_VMP_PREPARE, OP_BIG_RANGE_NORMALIZE, OP_AUTOMORPHISM, OP_ROTATE, OP_ADD};
    int focus[2] = {focus_pool[r.below(14)], focus_pool[r.below(14)]};
    if (cfg.large_world) {
      static const int big_focus[] = {OP_AUTOMORPHISM, OP_AUTOMORPHISM, OP_ROTATE, OP_IDFT, OP_DFT, OP_SMALL_PRODUCT, OP_VMP_APPLY_DFT, OP_SVP_APPLY_DFT, OP_NORMALIZE, OP_ADD, OP_NEGATE, OP_COPY};
      focus[0] = focus[1] = big_focus[r.below(12)];
    }
    if (cfg.column_world) {
      static const int col_focus[] = {OP_ADD, OP_SUB, OP_ADD, OP_NORMALIZE, OP_ROTATE, OP_AUTOMORPHISM, OP_COPY, OP_NEGATE, OP_BIG_NORMALIZE, OP_SUB};
      focus[0] = col_focus[r.below(10)];
      focus[1] = col_focus[r.below(10)];
    }
    const bool use_focus = cfg.shared_setup && nm > 0 && (cfg.large_world || cfg.column_world || r.chance(75, 100));
    for (int t = 0; t < cfg.ntasks; ++t) {
      cur_task = t;
      int want = (int)r.range(cfg.min_calls, cfg.max_calls);
      size_t start = P.calls.size();
      if (use_focus && r.chance(80, 100)) {
        for (int k = 0; k < 4; ++k) {
          int mod = (int)r.below(P.modules.size());
          if (P.modules[mod].type == 1) continue;
          if (emit_module_op(mod, focus[r.below(2)])) break;
        }
      }
      for (int tries = 0; (int)(P.calls.size() - start) < want && tries < want * 12; ++tries) emit_any();
    }
    cur_task = -1;
    if (cfg.column_groups) {
      // threads that split one result by columns: outputs of different tasks become interleaved columns of one block
      std::map<uint64_t, std::vector<int>> by_n;
      for (size_t i = 0; i < P.slots.size(); ++i) {
        const Slot& s = P.slots[i];
        if (s.type == T_ZV && s.owner >= 0 && !s.input && !s.liballoc && s.neighbor_of < 0 && !s.reserve && s.size > 0) by_n[s.n].push_back((int)i);
      }
      int gid = 0;
      for (auto& kv : by_n) {
        std::vector<int>& v = kv.second;
        for (size_t i = v.size(); i > 1; --i) std::swap(v[i - 1], v[r.below(i)]);
        if (v.size() > 6) v.resize(6);
        bool two_owners = false;
        for (int si : v)
          if (P.slots[si].owner != P.slots[v[0]].owner) two_owners = true;
        if (!two_owners) continue;
        for (size_t k = 0; k < v.size(); ++k) {
          Slot& s = P.slots[v[k]];
          s.group = gid;
          s.gidx = (int)k;
          s.gcols = v.size();
          s.sl = v.size() * s.n;
          s.place = P.slots[v[0]].place;
          s.off8 = P.slots[v[0]].off8;
        }
        gid++;
      }
    }
    if (cfg.shared_setup) {
      // documented warm-up protocol of the *_simple API: one completed call per (function, dimension) on the main
      // thread before any concurrent use. Un-warmed concurrent first use is outside the contract and never generated.
      std::vector<std::pair<int, uint64_t>> seen;
      size_t ncalls = P.calls.size();
      for (size_t i = 0; i < ncalls; ++i) {
        Call o = P.calls[i];
        const OpInfo& oi = op_info[o.op];
        if (oi.level != 2 || o.task < 0) continue;
        std::pair<int, uint64_t> key(o.op, o.p[0]);
        if (std::find(seen.begin(), seen.end(), key) != seen.end()) continue;
        seen.push_back(key);
        Call c = o;
        std::map<int, int> remap;
        for (int k = 0; k < oi.nslots; ++k) {
          if (!remap.count(o.s[k])) {
            Slot ns = P.slots[o.s[k]];
            ns.dseed = ns.dseed * 3 + 1;
            int id = add_slot(ns);
            remap[o.s[k]] = id;
          }
          c.s[k] = remap[o.s[k]];
        }
        push_call(c);
      }
    }
  }
};

}  // namespace

Program generate_program(uint64_t seed, const GenCfg& cfg) {
  Gen g(seed, cfg);
  g.M.P = &g.P;
  g.run();
  return g.P;
}
