// json.cpp -- minimal JSON value + Program <-> JSON (replay files are explicit programs, never "regenerate from seed")
#include "world.h"

static void dump_str(const std::string& s, std::string& o) {
  o += '"';
  for (char ch : s) {
    if (ch == '"' || ch == '\\') {
      o += '\\';
      o += ch;
    } else if (ch == '\n')
      o += "\\n";
    else if ((unsigned char)ch < 0x20)
      o += ' ';
    else
      o += ch;
  }
  o += '"';
}
static void dump_rec(const Json& j, std::string& o) {
  switch (j.kind) {
    case Json::NUL: o += "null"; break;
    case Json::BOOL: o += j.s; break;
    case Json::NUM: o += j.s; break;
    case Json::STR: dump_str(j.s, o); break;
    case Json::ARR:
      o += '[';
      for (size_t i = 0; i < j.a.size(); ++i) {
        if (i) o += ',';
        dump_rec(j.a[i], o);
      }
      o += ']';
      break;
    case Json::OBJ:
      o += '{';
      for (size_t i = 0; i < j.o.size(); ++i) {
        if (i) o += ',';
        dump_str(j.o[i].first, o);
        o += ':';
        dump_rec(j.o[i].second, o);
      }
      o += '}';
      break;
  }
}
std::string Json::dump() const {
  std::string o;
  dump_rec(*this, o);
  return o;
}

struct Parser {
  const std::string& t;
  size_t p = 0;
  bool ok = true;
  explicit Parser(const std::string& s) : t(s) {}
  void ws() { while (p < t.size() && (t[p] == ' ' || t[p] == '\n' || t[p] == '\t' || t[p] == '\r')) p++; }
  Json val() {
    ws();
    Json j;
    if (p >= t.size()) { ok = false; return j; }
    char c = t[p];
    if (c == '{') {
      j.kind = Json::OBJ;
      p++;
      ws();
      if (p < t.size() && t[p] == '}') { p++; return j; }
      while (ok) {
        ws();
        Json k = val();
        if (k.kind != Json::STR) { ok = false; break; }
        ws();
        if (p >= t.size() || t[p] != ':') { ok = false; break; }
        p++;
        Json v = val();
        j.o.push_back({k.s, v});
        ws();
        if (p < t.size() && t[p] == ',') { p++; continue; }
        if (p < t.size() && t[p] == '}') { p++; break; }
        ok = false;
      }
    } else if (c == '[') {
      j.kind = Json::ARR;
      p++;
      ws();
      if (p < t.size() && t[p] == ']') { p++; return j; }
      while (ok) {
        j.a.push_back(val());
        ws();
        if (p < t.size() && t[p] == ',') { p++; continue; }
        if (p < t.size() && t[p] == ']') { p++; break; }
        ok = false;
      }
    } else if (c == '"') {
      j.kind = Json::STR;
      p++;
      while (p < t.size() && t[p] != '"') {
        if (t[p] == '\\' && p + 1 < t.size()) {
          p++;
          j.s += t[p] == 'n' ? '\n' : t[p];
        } else
          j.s += t[p];
        p++;
      }
      if (p >= t.size()) ok = false;
      p++;
    } else if (c == 't' || c == 'f' || c == 'n') {
      size_t e = p;
      while (e < t.size() && isalpha((unsigned char)t[e])) e++;
      j.s = t.substr(p, e - p);
      j.kind = j.s == "null" ? Json::NUL : Json::BOOL;
      p = e;
    } else {
      size_t e = p;
      while (e < t.size() && (isdigit((unsigned char)t[e]) || t[e] == '-' || t[e] == '+' || t[e] == '.' || t[e] == 'e' || t[e] == 'E' || isalpha((unsigned char)t[e]))) e++;
      if (e == p) { ok = false; return j; }
      j.kind = Json::NUM;
      j.s = t.substr(p, e - p);
      p = e;
    }
    return j;
  }
};
bool Json::parse(const std::string& text, Json& out) {
  Parser ps(text);
  out = ps.val();
  return ps.ok;
}

// ---------------------------------------------------------------------------------------------- Program
Json Program::to_json() const {
  Json j = Json::obj();
  j.set("ntasks", Json::inum(ntasks));
  j.set("persist_tmp", Json::inum(persist_tmp));
  Json ms = Json::arr();
  for (auto& m : modules) ms.push(Json::obj().set("n", Json::num(m.n)).set("type", Json::str(m.type ? "NTT120" : "FFT64")));
  j.set("modules", ms);
  Json ts = Json::arr();
  for (auto& t : tables)
    ts.push(Json::obj().set("kind", Json::str(tab_kind_names[t.kind])).set("m", Json::num(t.m)).set("divisor", Json::dbl(t.divisor)).set("log2", Json::num(t.log2)));
  j.set("tables", ts);
  Json ss = Json::arr();
  for (size_t i = 0; i < slots.size(); ++i) {
    const Slot& s = slots[i];
    Json o = Json::obj();
    o.set("id", Json::num(i)).set("type", Json::str(slot_type_names[s.type])).set("mod", Json::inum(s.mod)).set("n", Json::num(s.n)).set("size", Json::num(s.size)).set("sl", Json::num(s.sl));
    o.set("place", Json::inum(s.place)).set("off8", Json::inum(s.off8)).set("fill", Json::inum(s.fill)).set("owner", Json::inum(s.owner)).set("liballoc", Json::inum(s.liballoc));
    if (s.reserve) o.set("reserve", Json::num(s.reserve)).set("reserve_side", Json::inum(s.reserve_side));
    if (s.neighbor_of >= 0) o.set("neighbor_of", Json::inum(s.neighbor_of)).set("interleaved", Json::inum(s.interleaved));
    if (s.group >= 0) o.set("group", Json::inum(s.group)).set("gidx", Json::inum(s.gidx)).set("gcols", Json::num(s.gcols));
    if (s.input) o.set("input", Json::inum(s.input)).set("pattern", Json::inum(s.pattern)).set("bits", Json::inum(s.bits)).set("dseed", Json::num(s.dseed)).set("nnz", Json::inum(s.nnz));
    ss.push(o);
  }
  j.set("slots", ss);
  Json cs = Json::arr();
  for (size_t i = 0; i < calls.size(); ++i) {
    const Call& c = calls[i];
    Json o = Json::obj();
    o.set("i", Json::num(i)).set("op", Json::str(op_info[c.op].name)).set("task", Json::inum(c.task)).set("mod", Json::inum(c.mod)).set("tab", Json::inum(c.tab));
    Json p = Json::arr(), s = Json::arr(), z = Json::arr();
    for (int k = 0; k < 4; ++k) p.push(Json::num(c.p[k]));
    for (int k = 0; k < 5; ++k) s.push(Json::inum(c.s[k]));
    for (int k = 0; k < 5; ++k) z.push(Json::num(c.sz[k]));
    o.set("p", p).set("ip", Json::inum(c.ip)).set("dp", Json::dbl(c.dp)).set("s", s).set("sz", z);
    o.set("tmp_fill", Json::inum(c.tmp_fill)).set("tmp_place", Json::inum(c.tmp_place)).set("repeat_of", Json::inum(c.repeat_of));
    cs.push(o);
  }
  j.set("calls", cs);
  return j;
}

template <class T>
static int find_name(const T& names, int n, const std::string& s) {
  for (int i = 0; i < n; ++i)
    if (s == names[i]) return i;
  return -1;
}

bool Program::from_json(const Json& j, std::string& err) {
  *this = Program();
  ntasks = (int)j.i("ntasks");
  persist_tmp = (int)j.i("persist_tmp");
  const Json* ms = j.get("modules");
  const Json* ts = j.get("tables");
  const Json* ss = j.get("slots");
  const Json* cs = j.get("calls");
  if (!ms || !ts || !ss || !cs) { err = "missing section"; return false; }
  for (auto& m : ms->a) {
    ModuleSpec x;
    x.n = m.u("n");
    x.type = m.str_("type") == "NTT120";
    modules.push_back(x);
  }
  for (auto& t : ts->a) {
    TableSpec x;
    x.kind = find_name(tab_kind_names, TB_NKINDS, t.str_("kind"));
    if (x.kind < 0) { err = "bad table kind"; return false; }
    x.m = t.u("m");
    x.divisor = t.d("divisor", 1);
    x.log2 = (uint32_t)t.u("log2");
    tables.push_back(x);
  }
  for (auto& s : ss->a) {
    Slot x;
    x.type = find_name(slot_type_names, T_NTYPES, s.str_("type"));
    if (x.type < 0) { err = "bad slot type"; return false; }
    x.mod = (int)s.i("mod", -1);
    x.n = s.u("n");
    x.size = s.u("size");
    x.sl = s.u("sl");
    x.place = (int)s.i("place");
    x.off8 = (int)s.i("off8");
    x.fill = (int)s.i("fill");
    x.owner = (int)s.i("owner", -1);
    x.liballoc = (int)s.i("liballoc");
    x.reserve = s.u("reserve");
    x.reserve_side = (int)s.i("reserve_side");
    x.neighbor_of = (int)s.i("neighbor_of", -1);
    x.interleaved = (int)s.i("interleaved");
    if (x.neighbor_of >= (int)slots.size()) x.neighbor_of = -1;  // only earlier slots can host a neighbour
    x.group = (int)s.i("group", -1);
    x.gidx = (int)s.i("gidx");
    x.gcols = s.u("gcols");
    x.input = (int)s.i("input");
    x.pattern = (int)s.i("pattern");
    x.bits = (int)s.i("bits");
    x.dseed = s.u("dseed");
    x.nnz = (int)s.i("nnz");
    slots.push_back(x);
  }
  for (auto& c : cs->a) {
    Call x;
    std::string opn = c.str_("op");
    x.op = -1;
    for (int i = 0; i < OP_NOPS; ++i)
      if (opn == op_info[i].name) x.op = i;
    if (x.op < 0) { err = "bad op " + opn; return false; }
    x.task = (int)c.i("task", -1);
    x.mod = (int)c.i("mod", -1);
    x.tab = (int)c.i("tab", -1);
    const Json* p = c.get("p");
    const Json* s = c.get("s");
    const Json* z = c.get("sz");
    for (int k = 0; k < 4 && p && k < (int)p->a.size(); ++k) x.p[k] = p->a[k].asu();
    for (int k = 0; k < 5 && s && k < (int)s->a.size(); ++k) x.s[k] = (int)s->a[k].asi();
    for (int k = 0; k < 5 && z && k < (int)z->a.size(); ++k) x.sz[k] = z->a[k].asu();
    x.ip = c.i("ip");
    x.dp = c.d("dp", 1);
    x.tmp_fill = (int)c.i("tmp_fill");
    x.tmp_place = (int)c.i("tmp_place");
    x.repeat_of = (int)c.i("repeat_of", -1);
    // structural validation (a shrunk replay file must never drive the harness out of bounds)
    const OpInfo& oi = op_info[x.op];
    for (int k = 0; k < oi.nslots; ++k)
      if (x.s[k] < 0 || x.s[k] >= (int)slots.size()) { err = "slot index out of range"; return false; }
    if (oi.level == 0 && (x.mod < 0 || x.mod >= (int)modules.size())) { err = "module index out of range"; return false; }
    if (oi.level == 1 && oi.tabkind >= 0 && (x.tab < 0 || x.tab >= (int)tables.size() || tables[x.tab].kind != oi.tabkind)) { err = "table index/kind mismatch"; return false; }
    if (x.task >= ntasks && ntasks > 0) { err = "task out of range"; return false; }
    calls.push_back(x);
  }
  return true;
}
