// model.cpp -- the small executable reference model: exact arithmetic in Z[X]/(X^N+1) with __int128 coefficients.
// Shares no code with the library and never looks inside an opaque layout (DESIGN §3, Appendix A).
#include "world.h"

#include <cmath>

typedef std::vector<i128> Poly;

long double poly_l1(const Poly& c) {
  long double s = 0;
  for (i128 x : c) s += (long double)(x < 0 ? -x : x);
  return s;
}
long double poly_l2(const Poly& c) {
  long double s = 0;
  for (i128 x : c) s += (long double)x * (long double)x;
  return sqrtl(s);
}
// documented worst-case error of one FFT64 product (C01): 8*log2(N)*2^-53*(|a|_1*|b|_2 + |a|_2*|b|_1)
static long double c01_error(uint64_t n, const Poly& a, const Poly& b) {
  int lg = 0;
  while ((1ull << lg) < n) lg++;
  if (lg < 1) lg = 1;
  return 8.0L * lg * ldexpl(1.0L, -53) * (poly_l1(a) * poly_l2(b) + poly_l2(a) * poly_l1(b));
}
i128 poly_linf(const Poly& c) {
  i128 m = 0;
  for (i128 x : c) {
    i128 a = x < 0 ? -x : x;
    if (a > m) m = a;
  }
  return m;
}

int64_t input_value(int pattern, int bits, uint64_t dseed, int nnz, uint64_t total, uint64_t idx) {
  if (pattern == PAT_INT64_EDGE) {
    // the extremes of the int64 range (NTT120 inputs: any signed 64-bit coefficient is in the domain)
    static const int64_t edge[8] = {INT64_MIN, INT64_MAX, INT64_MIN + 1, INT64_MAX - 1, -(INT64_C(1) << 62), (INT64_C(1) << 62), -1, 0};
    const uint64_t hh = mix64(dseed ^ 0xED6E, idx);
    if ((hh & 3) == 0) return (int64_t)mix64(dseed, idx);  // anything
    if ((hh & 3) == 1) return INT64_MIN + (int64_t)((hh >> 8) & 0xFFFFFFFFFFFFull);  // the lowest 2^48 values
    return edge[(hh >> 2) & 7];
  }
  if (pattern == PAT_CARRY) {
    // maximal carry chains for base 2^bits normalisation of a vector with nnz limbs: every digit sits at the boundary and
    // the least significant limb tips it over, so a +1 (or -1) carry travels through all limbs
    const int k = bits < 1 ? 1 : (bits > 62 ? 62 : bits);
    const uint64_t t = total ? total : 1;
    const uint64_t l = idx / t, j = idx % t;
    const int64_t m = (int64_t)((1ull << (k - 1)) - 1);
    const bool lowest = nnz > 0 && l + 1 == (uint64_t)nnz;
    switch (mix64(dseed ^ 0xCA22, j) & 3) {
      case 0: return lowest ? m + 1 : m;
      case 1: return lowest ? -m - 2 : -m - 1;
      case 2: return m;
      default: {
        const uint64_t hh = mix64(dseed, idx);
        int64_t r = (int64_t)(hh & ((1ull << k) - 1));
        return (hh >> 63) ? -r : r;
      }
    }
  }
  if (bits <= 0) return 0;
  if (bits > 62) bits = 62;
  const uint64_t h = mix64(dseed, idx);
  const int64_t maxv = (int64_t)((1ull << bits) - 1);
  auto rnd = [&](int b) -> int64_t {
    if (b <= 0) return 0;
    int64_t r = (int64_t)(h & ((1ull << b) - 1));
    return (h >> 63) ? -r : r;
  };
  switch (pattern) {
    case PAT_ALLMAX:
      return maxv;
    case PAT_ALTERNATING:
      return (idx & 1) ? -maxv : maxv;
    case PAT_SPARSE: {
      uint64_t t = total ? total : 1;
      uint64_t k = nnz > 0 ? (uint64_t)nnz : 1;
      if (mix64(dseed ^ 0x5555, idx) % t < k) {
        int64_t v = rnd(bits);
        return v ? v : 1;
      }
      return 0;
    }
    case PAT_ZERO:
      return 0;
    case PAT_SINGLE: {
      uint64_t t = total ? total : 1;
      return (idx % t) == (dseed % t) ? ((dseed >> 20) & 1 ? -maxv : maxv) : 0;
    }
    case PAT_MIXED: {
      int b = (int)(mix64(dseed ^ 0x3333, idx) % (uint64_t)(bits + 1));
      return rnd(b);
    }
    default:
      return rnd(bits);
  }
}

// ---------------------------------------------------------------------------------------------- ring maps
static Poly pzero(uint64_t n) { return Poly(n, 0); }
static Poly padd(const Poly& a, const Poly& b, int sign) {
  Poly r(a.size());
  for (size_t i = 0; i < a.size(); ++i) r[i] = a[i] + (sign > 0 ? b[i] : -b[i]);
  return r;
}
static Poly pneg(const Poly& a) {
  Poly r(a.size());
  for (size_t i = 0; i < a.size(); ++i) r[i] = -a[i];
  return r;
}
// a * X^p mod X^N+1, any p
static Poly protate(const Poly& a, int64_t p) {
  const uint64_t n = a.size();
  const uint64_t two_n = 2 * n;
  // p mod 2N (n is a power of two); arithmetic on the unsigned image is exact modulo 2N because 2N divides 2^64
  uint64_t pm = ((uint64_t)p) & (two_n - 1);
  Poly r(n);
  for (uint64_t i = 0; i < n; ++i) {
    uint64_t e = (i + pm) & (two_n - 1);
    if (e < n)
      r[e] = a[i];
    else
      r[e - n] = -a[i];
  }
  return r;
}
// a(X^p), p odd
static Poly pautomorphism(const Poly& a, int64_t p) {
  const uint64_t n = a.size();
  const uint64_t two_n = 2 * n;
  uint64_t pm = ((uint64_t)p) & (two_n - 1);
  Poly r(n, 0);
  for (uint64_t i = 0; i < n; ++i) {
    uint64_t e = (i * pm) & (two_n - 1);
    if (e < n)
      r[e] += a[i];
    else
      r[e - n] -= a[i];
  }
  return r;
}
static void pmul_acc(Poly& acc, const Poly& a, const Poly& b) {
  const size_t n = a.size();
  // iterate over the sparser operand's non-zeros
  std::vector<uint32_t> ia, ib;
  for (size_t i = 0; i < n; ++i) {
    if (a[i] != 0) ia.push_back((uint32_t)i);
    if (b[i] != 0) ib.push_back((uint32_t)i);
  }
  for (uint32_t i : ia) {
    const i128 ai = a[i];
    for (uint32_t j : ib) {
      size_t e = (size_t)i + j;
      if (e < n)
        acc[e] += ai * b[j];
      else
        acc[e - n] -= ai * b[j];
    }
  }
}

static const long double RULE_LIMIT = 2251799813685248.0L;  // 2^51
static bool mag_ok(long double mag, int depth) { return mag * ldexpl(1.0L, 9 + depth) <= RULE_LIMIT; }
static const i128 B50 = ((i128)1) << 50;
static const i128 B62 = ((i128)1) << 62;

void Model::init(const Program& p) {
  P = &p;
  v.assign(p.slots.size(), MVal());
}

void Model::load_input(int si) {
  const Slot& s = P->slots[si];
  MVal& m = v[si];
  m.type = s.type;
  m.n = s.n;
  if (s.type == T_ZV) {
    m.limbs.assign(s.size, MLimb());
    for (uint64_t l = 0; l < s.size; ++l) {
      m.limbs[l].c.resize(s.n);
      for (uint64_t j = 0; j < s.n; ++j) m.limbs[l].c[j] = input_value(s.pattern, s.bits, s.dseed, s.nnz, s.n, l * s.n + j);
    }
  } else if (s.type == T_MAT) {
    m.rows = s.size;
    m.cols = s.sl;
    m.limbs.assign(s.size * s.sl, MLimb());
    for (uint64_t l = 0; l < s.size * s.sl; ++l) {
      m.limbs[l].c.resize(s.n);
      for (uint64_t j = 0; j < s.n; ++j) m.limbs[l].c[j] = input_value(s.pattern, s.bits, s.dseed, s.nnz, s.n, l * s.n + j);
    }
  } else {
    m.type = -2;  // raw input: not modelled
  }
}

static bool is_module_op(int op) { return op >= OP_ZERO && op <= OP_SMALL_PRODUCT; }

bool Model::admissible(const Call& c, std::string* why) const {
  auto fail = [&](const char* w) {
    if (why) *why = w;
    return false;
  };
  if (!is_module_op(c.op)) return true;  // table-level / simple / life-cycle calls are not modelled
  const OpInfo& oi = op_info[c.op];
  const bool ntt = c.mod >= 0 && P->modules[c.mod].type == 1;
  // sources must be defined and valid on the limbs that are read
  for (int k = 0; k < oi.nslots; ++k) {
    if (oi.roles[k] == 'o') continue;
    const MVal& m = v[c.s[k]];
    if (m.type < 0) return fail("source undefined");
    uint64_t used = c.sz[k];
    if (m.type == T_PPOL) used = 1;
    if (m.type == T_PMAT || m.type == T_MAT) used = m.limbs.size();
    if (c.op == OP_BIG_RANGE_NORMALIZE && k == 1) used = m.limbs.size();
    if (used > m.limbs.size()) return fail("source smaller than the size passed");
    for (uint64_t i = 0; i < used; ++i)
      if (!m.limbs[i].valid) return fail("source limb invalid");
  }
  auto L = [&](int k, uint64_t i) -> const MLimb* {
    const MVal& m = v[c.s[k]];
    return i < c.sz[k] && i < m.limbs.size() ? &m.limbs[i] : nullptr;
  };
  auto linf_at = [&](int k, uint64_t i) -> i128 {
    const MLimb* l = L(k, i);
    return l ? poly_linf(l->c) : (i128)0;
  };
  switch (c.op) {
    case OP_ZERO:
      return true;
    case OP_COPY:
    case OP_NEGATE:
    case OP_ROTATE:
    case OP_AUTOMORPHISM:
    case OP_BIG_ROTATE:
    case OP_BIG_AUTOMORPHISM: {
      if ((c.op == OP_AUTOMORPHISM || c.op == OP_BIG_AUTOMORPHISM) && !(c.ip & 1)) return fail("even automorphism");
      if (c.ip == INT64_MIN) return fail("p out of range");
      for (uint64_t i = 0; i < c.sz[1]; ++i)
        if (linf_at(1, i) > B62) return fail("operand above 2^62");
      if ((c.op == OP_BIG_ROTATE || c.op == OP_BIG_AUTOMORPHISM) && ntt) return fail("not provided for NTT120");
      return true;
    }
    case OP_ADD:
    case OP_SUB:
    case OP_BIG_ADD:
    case OP_BIG_SUB:
    case OP_BIG_ADD_SMALL:
    case OP_BIG_ADD_SMALL2:
    case OP_BIG_SUB_SMALL_A:
    case OP_BIG_SUB_SMALL_B:
    case OP_BIG_SUB_SMALL2: {
      if (c.op >= OP_BIG_ADD && ntt) return fail("not provided for NTT120");
      uint64_t mx = c.sz[1] > c.sz[2] ? c.sz[1] : c.sz[2];
      for (uint64_t i = 0; i < mx; ++i)
        if (linf_at(1, i) + linf_at(2, i) >= B62) return fail("sum could wrap");
      return true;
    }
    case OP_NORMALIZE:
    case OP_BIG_NORMALIZE: {
      if (c.p[0] < 1 || c.p[0] > 62) return fail("k out of range");
      if (c.op == OP_BIG_NORMALIZE && ntt) return fail("not provided for NTT120");
      for (uint64_t i = 0; i < c.sz[1]; ++i)
        if (linf_at(1, i) > B62) return fail("operand above 2^62");
      return true;
    }
    case OP_BIG_RANGE_NORMALIZE: {
      if (c.p[0] < 1 || c.p[0] > 62) return fail("k out of range");
      if (ntt) return fail("not provided for NTT120");
      if (c.p[3] == 0 || c.p[1] > c.p[2]) return fail("bad range");
      const MVal& m = v[c.s[1]];
      if (c.p[2] > m.limbs.size()) return fail("range beyond vector");
      for (uint64_t i = c.p[1]; i < c.p[2]; i += c.p[3])
        if (poly_linf(m.limbs[i].c) > B62) return fail("operand above 2^62");
      return true;
    }
    case OP_DFT: {
      if (ntt) return true;
      uint64_t mn = c.sz[0] < c.sz[1] ? c.sz[0] : c.sz[1];
      for (uint64_t i = 0; i < mn; ++i)
        if (linf_at(1, i) >= B50) return fail("coefficient >= 2^50");
      return true;
    }
    case OP_IDFT:
    case OP_IDFT_TMP_A: {
      uint64_t mn = c.sz[0] < c.sz[1] ? c.sz[0] : c.sz[1];
      if (ntt) {
        if (c.op == OP_IDFT && c.s[0] == c.s[1]) return fail("NTT120 layouts differ in size: no in-place idft");
        return true;
      }
      for (uint64_t i = 0; i < mn; ++i) {
        const MLimb* l = L(1, i);
        if (l->tol > 0) continue;  // edge-of-budget product: compared within its documented error bound
        if (!mag_ok(l->mag, l->depth)) return fail("DFT value outside the exactness budget");
      }
      return true;
    }
    case OP_SVP_PREPARE:
      if (ntt) return fail("not provided for NTT120");
      if (linf_at(1, 0) >= B50) return fail("coefficient >= 2^50");
      return true;
    case OP_SVP_APPLY_DFT: {
      if (ntt) return fail("not provided for NTT120");
      const MVal& pp = v[c.s[1]];
      uint64_t mn = c.sz[0] < c.sz[2] ? c.sz[0] : c.sz[2];
      for (uint64_t i = 0; i < mn; ++i) {
        if (linf_at(2, i) >= B50) return fail("coefficient >= 2^50");
        if (c.p[3]) {
          // documented 52-bit budget: min(|a|_1*|b|_inf, |a|_inf*|b|_1) < 2^52
          long double b1 = poly_l1(L(2, i)->c) * (long double)poly_linf(pp.limbs[0].c), b2 = (long double)poly_linf(L(2, i)->c) * poly_l1(pp.limbs[0].c);
          if (!((b1 < b2 ? b1 : b2) < ldexpl(1.0L, 52))) return fail("product outside the 52-bit budget");
        } else if (!mag_ok(poly_l1(L(2, i)->c) * pp.limbs[0].mag, 1))
          return fail("product outside budget");
      }
      return true;
    }
    case OP_VMP_PREPARE: {
      if (ntt) return fail("not provided for NTT120");
      const MVal& mt = v[c.s[1]];
      if (c.p[0] < 1 || c.p[1] < 1) return fail("matrix must be at least 1x1");
      if (mt.rows != c.p[0] || mt.cols != c.p[1]) return fail("matrix shape mismatch");
      for (auto& l : mt.limbs)
        if (poly_linf(l.c) >= B50) return fail("coefficient >= 2^50");
      return true;
    }
    case OP_VMP_APPLY_DFT:
    case OP_VMP_APPLY_DFT_TO_DFT: {
      if (ntt) return fail("not provided for NTT120");
      const MVal& pm = v[c.s[2]];
      if (pm.rows != c.p[0] || pm.cols != c.p[1]) return fail("matrix shape mismatch");
      if (c.s[0] == c.s[1]) return fail("res must not alias a_dft");
      uint64_t rows = c.p[0] < c.sz[1] ? c.p[0] : c.sz[1];
      uint64_t cols = c.p[1] < c.sz[0] ? c.p[1] : c.sz[0];
      int depth = 1;
      for (uint64_t i = 0; i < rows; ++i) {
        const MLimb* a = L(1, i);
        if (c.op == OP_VMP_APPLY_DFT) {
          if (poly_linf(a->c) >= B50) return fail("coefficient >= 2^50");
        } else {
          if (a->tol > 0) return fail("edge-of-budget value only flows to the inverse transform");
          if (a->depth + 1 > depth) depth = a->depth + 1;
        }
      }
      for (uint64_t j = 0; j < cols; ++j) {
        long double mag = 0;
        for (uint64_t i = 0; i < rows; ++i) {
          const MLimb* a = L(1, i);
          long double am = c.op == OP_VMP_APPLY_DFT ? poly_l1(a->c) : a->mag;
          mag += am * pm.limbs[i * pm.cols + j].mag;
        }
        if (!mag_ok(mag, depth)) return fail("product outside budget");
      }
      return true;
    }
    case OP_SMALL_PRODUCT: {
      if (ntt) return fail("not provided for NTT120");
      if (linf_at(1, 0) >= B50 || linf_at(2, 0) >= B50) return fail("coefficient >= 2^50");
      if (c.p[3]) {
        long double b1 = poly_l1(L(1, 0)->c) * (long double)poly_linf(L(2, 0)->c), b2 = (long double)poly_linf(L(1, 0)->c) * poly_l1(L(2, 0)->c);
        if (!((b1 < b2 ? b1 : b2) < ldexpl(1.0L, 52))) return fail("product outside the 52-bit budget");
        return true;
      }
      if (!mag_ok(poly_l1(L(1, 0)->c) * poly_l1(L(2, 0)->c), 1)) return fail("product outside budget");
      return true;
    }
  }
  return true;
}

void Model::apply(const Call& c) {
  if (!is_module_op(c.op)) {
    // not modelled: outputs become opaque
    const OpInfo& oi = op_info[c.op];
    for (int k = 0; k < oi.nslots; ++k)
      if (oi.roles[k] != 'i') v[c.s[k]].type = -2;
    return;
  }
  const uint64_t n = P->modules[c.mod].n;
  const Slot& rs = P->slots[c.s[0]];
  auto SRC = [&](int k, uint64_t i) -> Poly {
    const MVal& m = v[c.s[k]];
    if (i < c.sz[k] && i < m.limbs.size()) return m.limbs[i].c;
    return pzero(n);
  };
  // result limbs are computed first (sources may alias the result), then stored
  std::vector<MLimb> out(c.sz[0]);
  for (auto& l : out) {
    l.c = pzero(n);
    l.valid = true;
  }
  int out_type = rs.type;
  uint64_t rows = 0, cols = 0;
  std::vector<std::pair<int, uint64_t>> invalidate;  // (slot, limb)
  switch (c.op) {
    case OP_ZERO:
      break;
    case OP_COPY:
      for (uint64_t i = 0; i < c.sz[0]; ++i) out[i].c = SRC(1, i);
      break;
    case OP_NEGATE:
      for (uint64_t i = 0; i < c.sz[0]; ++i) out[i].c = pneg(SRC(1, i));
      break;
    case OP_ADD:
    case OP_BIG_ADD:
    case OP_BIG_ADD_SMALL:
    case OP_BIG_ADD_SMALL2:
      for (uint64_t i = 0; i < c.sz[0]; ++i) out[i].c = padd(SRC(1, i), SRC(2, i), +1);
      break;
    case OP_SUB:
    case OP_BIG_SUB:
    case OP_BIG_SUB_SMALL_A:
    case OP_BIG_SUB_SMALL_B:
    case OP_BIG_SUB_SMALL2:
      for (uint64_t i = 0; i < c.sz[0]; ++i) out[i].c = padd(SRC(1, i), SRC(2, i), -1);
      break;
    case OP_ROTATE:
    case OP_BIG_ROTATE:
      for (uint64_t i = 0; i < c.sz[0]; ++i) out[i].c = protate(SRC(1, i), c.ip);
      break;
    case OP_AUTOMORPHISM:
    case OP_BIG_AUTOMORPHISM:
      for (uint64_t i = 0; i < c.sz[0]; ++i) out[i].c = pautomorphism(SRC(1, i), c.ip);
      break;
    case OP_NORMALIZE:
    case OP_BIG_NORMALIZE:
    case OP_BIG_RANGE_NORMALIZE: {
      // gather the selected limbs, most significant first
      std::vector<Poly> a;
      if (c.op == OP_BIG_RANGE_NORMALIZE) {
        const MVal& m = v[c.s[1]];
        for (uint64_t i = c.p[1]; i < c.p[2]; i += c.p[3]) a.push_back(m.limbs[i].c);
      } else {
        for (uint64_t i = 0; i < c.sz[1]; ++i) a.push_back(SRC(1, i));
      }
      const uint64_t k = c.p[0];
      const i128 base = ((i128)1) << k, half = ((i128)1) << (k - 1);
      const uint64_t asz = a.size();
      for (uint64_t j = 0; j < n; ++j) {
        i128 carry = 0;
        for (uint64_t i = asz; i-- > 0;) {
          i128 x = a[i][j] + carry;
          // balanced digit in [-2^(k-1), 2^(k-1)) with x = d (mod 2^k)
          i128 r = x % base;
          if (r < 0) r += base;
          i128 d = r >= half ? r - base : r;
          carry = (x - d) / base;
          if (i < c.sz[0]) out[i].c[j] = d;
        }
      }
      out_type = T_ZV;
      break;
    }
    case OP_DFT: {
      const bool ntt = P->modules[c.mod].type == 1;
      for (uint64_t i = 0; i < c.sz[0]; ++i) {
        out[i].c = SRC(1, i);
        out[i].mag = ntt ? 0 : poly_l1(out[i].c);
        out[i].depth = 0;
      }
      out_type = T_DFT;
      break;
    }
    case OP_IDFT:
    case OP_IDFT_TMP_A: {
      uint64_t mn = c.sz[0] < c.sz[1] ? c.sz[0] : c.sz[1];
      for (uint64_t i = 0; i < mn; ++i) {
        out[i].c = SRC(1, i);
        const MVal& sv = v[c.s[1]];
        if (i < sv.limbs.size() && sv.limbs[i].tol > 0) out[i].tol = sv.limbs[i].tol + 0.5L;
      }
      out_type = T_BIG;
      if (c.op == OP_IDFT_TMP_A)
        for (uint64_t i = 0; i < mn; ++i) invalidate.push_back({c.s[1], i});
      break;
    }
    case OP_SVP_PREPARE:
      out.resize(1);
      out[0].c = v[c.s[1]].limbs[0].c;
      out[0].mag = poly_l1(out[0].c);
      out[0].valid = true;
      out_type = T_PPOL;
      break;
    case OP_SVP_APPLY_DFT: {
      const MVal& pp = v[c.s[1]];
      uint64_t mn = c.sz[0] < c.sz[2] ? c.sz[0] : c.sz[2];
      for (uint64_t i = 0; i < mn; ++i) {
        Poly a = SRC(2, i);
        pmul_acc(out[i].c, a, pp.limbs[0].c);
        out[i].mag = poly_l1(a) * pp.limbs[0].mag;
        out[i].depth = 1;
        if (c.p[3]) out[i].tol = c01_error(n, a, pp.limbs[0].c);
      }
      out_type = T_DFT;
      break;
    }
    case OP_VMP_PREPARE: {
      const MVal& mt = v[c.s[1]];
      out = mt.limbs;
      for (auto& l : out) {
        l.mag = poly_l1(l.c);
        l.depth = 0;
        l.valid = true;
      }
      rows = mt.rows;
      cols = mt.cols;
      out_type = T_PMAT;
      break;
    }
    case OP_VMP_APPLY_DFT:
    case OP_VMP_APPLY_DFT_TO_DFT: {
      const MVal& pm = v[c.s[2]];
      const MVal& av = v[c.s[1]];
      uint64_t nr = c.p[0] < c.sz[1] ? c.p[0] : c.sz[1];
      uint64_t nc = c.p[1] < c.sz[0] ? c.p[1] : c.sz[0];
      for (uint64_t j = 0; j < nc; ++j) {
        long double mag = 0;
        int depth = 1;
        for (uint64_t i = 0; i < nr; ++i) {
          const MLimb& a = av.limbs[i];
          pmul_acc(out[j].c, a.c, pm.limbs[i * pm.cols + j].c);
          long double am = c.op == OP_VMP_APPLY_DFT ? poly_l1(a.c) : a.mag;
          mag += am * pm.limbs[i * pm.cols + j].mag;
          if (c.op == OP_VMP_APPLY_DFT_TO_DFT && a.depth + 1 > depth) depth = a.depth + 1;
        }
        out[j].mag = mag;
        out[j].depth = depth;
      }
      out_type = T_DFT;
      break;
    }
    case OP_SMALL_PRODUCT:
      out.resize(1);
      out[0].c = pzero(n);
      pmul_acc(out[0].c, v[c.s[1]].limbs[0].c, v[c.s[2]].limbs[0].c);
      if (c.p[3]) out[0].tol = c01_error(n, v[c.s[1]].limbs[0].c, v[c.s[2]].limbs[0].c) + 0.5L;
      out_type = T_ZV;
      break;
  }
  for (auto& iv : invalidate)
    if (iv.second < v[iv.first].limbs.size()) v[iv.first].limbs[iv.second].valid = false;
  MVal& r = v[c.s[0]];
  const bool retype = r.type != out_type;
  if (r.type < 0 || r.limbs.size() < out.size() || out_type == T_PPOL || out_type == T_PMAT) {
    uint64_t alloc = rs.size > out.size() ? rs.size : out.size();
    if (out_type == T_PPOL) alloc = 1;
    if (out_type == T_PMAT) alloc = out.size();
    std::vector<MLimb> old = r.limbs;
    r.limbs.assign(alloc, MLimb());
    for (auto& l : r.limbs) l.valid = false;
    for (size_t i = 0; i < old.size() && i < r.limbs.size(); ++i) r.limbs[i] = old[i];
  }
  if (retype)
    for (auto& l : r.limbs) l.valid = false;  // remaining limbs hold data of another representation
  r.type = out_type;
  r.n = n;
  if (out_type == T_PMAT) {
    r.rows = rows;
    r.cols = cols;
  }
  for (size_t i = 0; i < out.size(); ++i) r.limbs[i] = out[i];
}
