// ops.cpp -- the entry-point table: what each operation is called, which operands it has, how large they are,
// and how it is invoked on the real library. No library function is replaced here.
#include "world.h"

#include "spqlios/arithmetic/vec_znx_arithmetic.h"
#include "spqlios/coeffs/coeffs_arithmetic.h"
#include "spqlios/cplx/cplx_fft.h"
#include "spqlios/cplx/cplx_fft_internal.h"
#include "spqlios/reim4/reim4_arithmetic.h"
#include "spqlios/q120/q120_arithmetic.h"
#include "spqlios/q120/q120_ntt.h"
#include "spqlios/reim/reim_fft.h"
#include "spqlios/reim4/reim4_fftvec_public.h"

const char* const slot_type_names[] = {"ZV", "BIG", "DFT", "PPOL", "PMAT", "MAT", "F64", "I64", "I32", "U64", "U32", "I128"};
const char* const mask_names[] = {"all", "none", "fma-only", "avx2-only"};
const char* const tab_kind_names[] = {"reim_fft", "reim_ifft", "reim_mul", "reim_addmul", "reim_from_znx64", "reim_to_znx64", "reim_to_tnx",
                                      "cplx_fft", "cplx_ifft", "cplx_mul", "cplx_addmul", "cplx_from_znx32", "cplx_from_tnx32", "cplx_to_tnx32",
                                      "r4_mul", "r4_addmul", "r4_from_cplx", "r4_to_cplx",
                                      "q120_ntt", "q120_intt", "q120_baa", "q120_bbb", "q120_bbc"};

#define M0 0
#define L1 1
#define S2 2
#define LC 3
const OpInfo op_info[OP_NOPS] = {
    {"none", 0, "", 0, -1, OP_NONE, false},
    {"vec_znx_zero", 1, "o", M0, -1, OP_NONE, false},
    {"vec_znx_copy", 2, "oi", M0, -1, OP_NONE, false},
    {"vec_znx_negate", 2, "oi", M0, -1, OP_NONE, false},
    {"vec_znx_add", 3, "oii", M0, -1, OP_NONE, false},
    {"vec_znx_sub", 3, "oii", M0, -1, OP_NONE, false},
    {"vec_znx_rotate", 2, "oi", M0, -1, OP_NONE, false},
    {"vec_znx_automorphism", 2, "oi", M0, -1, OP_NONE, false},
    {"vec_znx_normalize_base2k", 2, "oi", M0, -1, OP_NONE, true},
    {"vec_znx_dft", 2, "oi", M0, -1, OP_NONE, false},
    {"vec_znx_idft", 2, "oi", M0, -1, OP_NONE, true},
    {"vec_znx_idft_tmp_a", 2, "od", M0, -1, OP_NONE, false},
    {"vec_znx_big_add", 3, "oii", M0, -1, OP_NONE, false},
    {"vec_znx_big_sub", 3, "oii", M0, -1, OP_NONE, false},
    {"vec_znx_big_add_small", 3, "oii", M0, -1, OP_NONE, false},
    {"vec_znx_big_add_small2", 3, "oii", M0, -1, OP_NONE, false},
    {"vec_znx_big_sub_small_a", 3, "oii", M0, -1, OP_NONE, false},
    {"vec_znx_big_sub_small_b", 3, "oii", M0, -1, OP_NONE, false},
    {"vec_znx_big_sub_small2", 3, "oii", M0, -1, OP_NONE, false},
    {"vec_znx_big_rotate", 2, "oi", M0, -1, OP_NONE, false},
    {"vec_znx_big_automorphism", 2, "oi", M0, -1, OP_NONE, false},
    {"vec_znx_big_normalize_base2k", 2, "oi", M0, -1, OP_NONE, true},
    {"vec_znx_big_range_normalize_base2k", 2, "oi", M0, -1, OP_NONE, true},
    {"svp_prepare", 2, "oi", M0, -1, OP_NONE, false},
    {"svp_apply_dft", 3, "oii", M0, -1, OP_NONE, false},
    {"vmp_prepare_contiguous", 2, "oi", M0, -1, OP_NONE, true},
    {"vmp_apply_dft", 3, "oii", M0, -1, OP_NONE, true},
    {"vmp_apply_dft_to_dft", 3, "oii", M0, -1, OP_NONE, true},
    {"znx_small_single_product", 3, "oii", M0, -1, OP_NONE, true},
    // table level
    {"reim_fft", 1, "x", L1, TB_REIM_FFT, OP_REIM_FFT_SIMPLE, false},
    {"reim_ifft", 1, "x", L1, TB_REIM_IFFT, OP_REIM_IFFT_SIMPLE, false},
    {"reim_fftvec_mul", 3, "oii", L1, TB_REIM_MUL, OP_REIM_MUL_SIMPLE, false},
    {"reim_fftvec_addmul", 3, "xii", L1, TB_REIM_ADDMUL, OP_REIM_ADDMUL_SIMPLE, false},
    {"reim_from_znx64", 2, "oi", L1, TB_REIM_FROM_ZNX64, OP_REIM_FROM_ZNX64_SIMPLE, false},
    {"reim_to_znx64", 2, "oi", L1, TB_REIM_TO_ZNX64, OP_REIM_TO_ZNX64_SIMPLE, false},
    {"reim_to_tnx", 2, "oi", L1, TB_REIM_TO_TNX, OP_NONE, false},
    {"cplx_fft", 1, "x", L1, TB_CPLX_FFT, OP_CPLX_FFT_SIMPLE, false},
    {"cplx_ifft", 1, "x", L1, TB_CPLX_IFFT, OP_CPLX_IFFT_SIMPLE, false},
    {"cplx_fftvec_mul", 3, "oii", L1, TB_CPLX_MUL, OP_CPLX_MUL_SIMPLE, false},
    {"cplx_fftvec_addmul", 3, "xii", L1, TB_CPLX_ADDMUL, OP_CPLX_ADDMUL_SIMPLE, false},
    {"cplx_from_znx32", 2, "oi", L1, TB_CPLX_FROM_ZNX32, OP_CPLX_FROM_ZNX32_SIMPLE, false},
    {"cplx_from_tnx32", 2, "oi", L1, TB_CPLX_FROM_TNX32, OP_CPLX_FROM_TNX32_SIMPLE, false},
    {"cplx_to_tnx32", 2, "oi", L1, TB_CPLX_TO_TNX32, OP_CPLX_TO_TNX32_SIMPLE, false},
    {"reim4_fftvec_mul", 3, "oii", L1, TB_R4_MUL, OP_R4_MUL_SIMPLE, false},
    {"reim4_fftvec_addmul", 3, "xii", L1, TB_R4_ADDMUL, OP_R4_ADDMUL_SIMPLE, false},
    {"reim4_from_cplx", 2, "oi", L1, TB_R4_FROM_CPLX, OP_R4_FROM_CPLX_SIMPLE, false},
    {"reim4_to_cplx", 2, "oi", L1, TB_R4_TO_CPLX, OP_R4_TO_CPLX_SIMPLE, false},
    {"q120_ntt_bb_avx2", 1, "x", L1, TB_Q120_NTT, OP_NONE, false},
    {"q120_intt_bb_avx2", 1, "x", L1, TB_Q120_INTT, OP_NONE, false},
    {"q120_vec_mat1col_product_baa_ref", 3, "oii", L1, TB_Q120_BAA, OP_NONE, false},
    {"q120_vec_mat1col_product_baa_avx2", 3, "oii", L1, TB_Q120_BAA, OP_NONE, false},
    {"q120_vec_mat1col_product_bbb_ref", 3, "oii", L1, TB_Q120_BBB, OP_NONE, false},
    {"q120_vec_mat1col_product_bbb_avx2", 3, "oii", L1, TB_Q120_BBB, OP_NONE, false},
    {"q120_vec_mat1col_product_bbc_ref", 3, "oii", L1, TB_Q120_BBC, OP_NONE, false},
    {"q120_vec_mat1col_product_bbc_avx2", 3, "oii", L1, TB_Q120_BBC, OP_NONE, false},
    {"q120x2_vec_mat1col_product_bbc_ref", 3, "oii", L1, TB_Q120_BBC, OP_NONE, false},
    {"q120x2_vec_mat1col_product_bbc_avx2", 3, "oii", L1, TB_Q120_BBC, OP_NONE, false},
    {"q120x2_vec_mat2cols_product_bbc_ref", 3, "oii", L1, TB_Q120_BBC, OP_NONE, false},
    {"q120x2_vec_mat2cols_product_bbc_avx2", 3, "oii", L1, TB_Q120_BBC, OP_NONE, false},
    {"q120_b_from_znx64_simple", 2, "oi", L1, -1, OP_NONE, false},
    {"q120_c_from_znx64_simple", 2, "oi", L1, -1, OP_NONE, false},
    {"q120_c_from_b_simple", 2, "oi", L1, -1, OP_NONE, false},
    {"q120_b_to_znx128_simple", 2, "oi", L1, -1, OP_NONE, false},
    {"q120_add_bbb_simple", 3, "oii", L1, -1, OP_NONE, false},
    {"q120_add_ccc_simple", 3, "oii", L1, -1, OP_NONE, false},
    {"q120x2_extract_1blk_from_q120b_ref", 2, "oi", L1, -1, OP_NONE, false},
    {"q120x2_extract_1blk_from_q120c_ref", 2, "oi", L1, -1, OP_NONE, false},
    {"q120x2_extract_1blk_from_contiguous_q120b_ref", 2, "oi", L1, -1, OP_NONE, false},
    {"q120x2b_save_1blk_to_q120b_ref", 2, "xi", L1, -1, OP_NONE, false},
    {"znx_add_i64_ref", 3, "oii", L1, -1, OP_NONE, false},
    {"znx_add_i64_avx", 3, "oii", L1, -1, OP_NONE, false},
    {"znx_sub_i64_ref", 3, "oii", L1, -1, OP_NONE, false},
    {"znx_sub_i64_avx", 3, "oii", L1, -1, OP_NONE, false},
    {"znx_negate_i64_ref", 2, "oi", L1, -1, OP_NONE, false},
    {"znx_negate_i64_avx", 2, "oi", L1, -1, OP_NONE, false},
    {"rnx_divide_by_m_ref", 2, "oi", L1, -1, OP_NONE, false},
    {"rnx_divide_by_m_avx", 2, "oi", L1, -1, OP_NONE, false},
    {"reim4_vec_mat1col_product_ref", 3, "oii", L1, -1, OP_NONE, false},
    {"reim4_vec_mat1col_product_avx2", 3, "oii", L1, -1, OP_NONE, false},
    {"reim4_vec_mat2cols_product_ref", 3, "oii", L1, -1, OP_NONE, false},
    {"reim4_vec_mat2cols_product_avx2", 3, "oii", L1, -1, OP_NONE, false},
    {"cplx_fftvec_addmul_ref", 3, "xii", L1, TB_CPLX_ADDMUL, OP_NONE, false},
    {"cplx_fftvec_addmul_sse", 3, "xii", L1, TB_CPLX_ADDMUL, OP_NONE, false},
    {"cplx_fftvec_addmul_avx512", 3, "xii", L1, TB_CPLX_ADDMUL, OP_NONE, false},
    // simple twins
    {"reim_fft_simple", 1, "x", S2, -1, OP_REIM_FFT, false},
    {"reim_ifft_simple", 1, "x", S2, -1, OP_REIM_IFFT, false},
    {"reim_fftvec_mul_simple", 3, "oii", S2, -1, OP_REIM_MUL, false},
    {"reim_fftvec_addmul_simple", 3, "xii", S2, -1, OP_REIM_ADDMUL, false},
    {"reim_from_znx64_simple", 2, "oi", S2, -1, OP_REIM_FROM_ZNX64, false},
    {"reim_to_znx64_simple", 2, "oi", S2, -1, OP_REIM_TO_ZNX64, false},
    {"cplx_fft_simple", 1, "x", S2, -1, OP_CPLX_FFT, false},
    {"cplx_ifft_simple", 1, "x", S2, -1, OP_CPLX_IFFT, false},
    {"cplx_fftvec_mul_simple", 3, "oii", S2, -1, OP_CPLX_MUL, false},
    {"cplx_fftvec_addmul_simple", 3, "xii", S2, -1, OP_CPLX_ADDMUL, false},
    {"cplx_from_znx32_simple", 2, "oi", S2, -1, OP_CPLX_FROM_ZNX32, false},
    {"cplx_from_tnx32_simple", 2, "oi", S2, -1, OP_CPLX_FROM_TNX32, false},
    {"cplx_to_tnx32_simple", 2, "oi", S2, -1, OP_CPLX_TO_TNX32, false},
    {"reim4_fftvec_mul_simple", 3, "oii", S2, -1, OP_R4_MUL, false},
    {"reim4_fftvec_addmul_simple", 3, "xii", S2, -1, OP_R4_ADDMUL, false},
    {"reim4_from_cplx_simple", 2, "oi", S2, -1, OP_R4_FROM_CPLX, false},
    {"reim4_to_cplx_simple", 2, "oi", S2, -1, OP_R4_TO_CPLX, false},
    // life cycle
    {"new/delete_module_info", 0, "", LC, -1, OP_NONE, false},
    {"new/delete_vec_znx_dft", 0, "", LC, -1, OP_NONE, false},
    {"new/delete_vec_znx_big", 0, "", LC, -1, OP_NONE, false},
    {"new/delete_svp_ppol", 0, "", LC, -1, OP_NONE, false},
    {"new/delete_vmp_pmat", 0, "", LC, -1, OP_NONE, false},
    {"new/delete_precomp", 0, "", LC, -1, OP_NONE, false},
    {"spqlios_alloc/spqlios_free", 0, "", LC, -1, OP_NONE, false},
    {"new_*_fft_precomp with buffers/get_buffer/delete", 0, "", LC, -1, OP_NONE, false},
    {"two modules of one dimension, one deleted, the other used", 0, "", LC, -1, OP_NONE, false},
    {"sequence of module creations, uses and deletions", 0, "", LC, -1, OP_NONE, false},
    {"sequence of table creations, uses and deletions", 0, "", LC, -1, OP_NONE, false},
};

int& op_leak_errors() {
  static thread_local int e = 0;
  return e;
}

int& op_selfcheck_errors() {
  static thread_local int e = 0;
  return e;
}

static inline const MODULE* MOD(const std::vector<void*>& mods, int i) { return (const MODULE*)mods[i]; }

uint64_t slot_alloc_bytes(const Program& P, const Slot& s, const std::vector<void*>& mods) {
  const bool ntt = s.mod >= 0 && P.modules[s.mod].type == 1;
  switch (s.type) {
    case T_ZV:
      return s.size ? ((s.size - 1) * s.sl + s.n) * 8 : 0;
    case T_BIG:
      // sized with the library's own bytes_of_* where the module type provides it (C11: "objects sized with bytes_of_*()")
      if (!ntt) return bytes_of_vec_znx_big(MOD(mods, s.mod), s.size);
      return s.size * s.n * 16;
    case T_DFT:
      if (!ntt) return bytes_of_vec_znx_dft(MOD(mods, s.mod), s.size);
      return s.size * s.n * 32;
    case T_PPOL:
      return bytes_of_svp_ppol(MOD(mods, s.mod));
    case T_PMAT:
      return bytes_of_vmp_pmat(MOD(mods, s.mod), s.size, s.sl);
    case T_MAT:
      return s.size * s.sl * s.n * 8;
    case T_F64:
    case T_I64:
    case T_U64:
      return s.n * 8;
    case T_I32:
    case T_U32:
      return s.n * 4;
    case T_I128:
      return s.n * 16;
  }
  return 0;
}

uint64_t operand_extent(const Program& P, const Call& c, int k) {
  const Slot& s = P.slots[c.s[k]];
  const bool ntt = s.mod >= 0 && P.modules[s.mod].type == 1;
  switch (s.type) {
    case T_ZV:
      return c.sz[k] ? ((c.sz[k] - 1) * s.sl + s.n) * 8 : 0;
    case T_BIG:
      return c.sz[k] * s.n * (ntt ? 16 : 8);
    case T_DFT:
      return c.sz[k] * s.n * (ntt ? 32 : 8);
    default:
      return ~0ull;  // whole slot
  }
}

bool op_is_integer_output(const Program& P, const Call& c, int k) {
  int t = P.slots[c.s[k]].type;
  if (c.op == OP_IDFT || c.op == OP_IDFT_TMP_A) return k == 0;
  return t == T_ZV || t == T_BIG || t == T_I64 || t == T_I32 || t == T_U64 || t == T_U32 || t == T_I128;
}

uint64_t op_tmp_bytes(const Program& P, const Call& c, const std::vector<void*>& mods) {
  const MODULE* m = c.mod >= 0 ? MOD(mods, c.mod) : nullptr;
  switch (c.op) {
    case OP_NORMALIZE:
      return vec_znx_normalize_base2k_tmp_bytes(m);
    case OP_IDFT:
      return vec_znx_idft_tmp_bytes(m);
    case OP_BIG_NORMALIZE:
      return vec_znx_big_normalize_base2k_tmp_bytes(m);
    case OP_BIG_RANGE_NORMALIZE:
      return vec_znx_big_range_normalize_base2k_tmp_bytes(m);
    case OP_VMP_PREPARE:
      return vmp_prepare_contiguous_tmp_bytes(m, c.p[0], c.p[1]);
    case OP_VMP_APPLY_DFT:
      return vmp_apply_dft_tmp_bytes(m, c.sz[0], c.sz[1], c.p[0], c.p[1]);
    case OP_VMP_APPLY_DFT_TO_DFT:
      return vmp_apply_dft_to_dft_tmp_bytes(m, c.sz[0], c.sz[1], c.p[0], c.p[1]);
    case OP_SMALL_PRODUCT:
      return znx_small_single_product_tmp_bytes(m);
    default:
      return 0;
  }
}

void* table_create(const TableSpec& t) {
  const uint32_t m = (uint32_t)t.m;
  switch (t.kind) {
    case TB_REIM_FFT: return new_reim_fft_precomp(m, 0);
    case TB_REIM_IFFT: return new_reim_ifft_precomp(m, 0);
    case TB_REIM_MUL: return new_reim_fftvec_mul_precomp(m);
    case TB_REIM_ADDMUL: return new_reim_fftvec_addmul_precomp(m);
    case TB_REIM_FROM_ZNX64: return new_reim_from_znx64_precomp(m, t.log2);
    case TB_REIM_TO_ZNX64: return new_reim_to_znx64_precomp(m, t.divisor, t.log2);
    case TB_REIM_TO_TNX: return new_reim_to_tnx_precomp(m, t.divisor, t.log2);
    case TB_CPLX_FFT: return new_cplx_fft_precomp(m, 0);
    case TB_CPLX_IFFT: return new_cplx_ifft_precomp(m, 0);
    case TB_CPLX_MUL: return new_cplx_fftvec_mul_precomp(m);
    case TB_CPLX_ADDMUL: return new_cplx_fftvec_addmul_precomp(m);
    case TB_CPLX_FROM_ZNX32: return new_cplx_from_znx32_precomp(m);
    case TB_CPLX_FROM_TNX32: return new_cplx_from_tnx32_precomp(m);
    case TB_CPLX_TO_TNX32: return new_cplx_to_tnx32_precomp(m, t.divisor, t.log2);
    case TB_R4_MUL: return new_reim4_fftvec_mul_precomp(m);
    case TB_R4_ADDMUL: return new_reim4_fftvec_addmul_precomp(m);
    case TB_R4_FROM_CPLX: return new_reim4_from_cplx_precomp(m);
    case TB_R4_TO_CPLX: return new_reim4_to_cplx_precomp(m);
    case TB_Q120_NTT: return q120_new_ntt_bb_precomp(t.m);
    case TB_Q120_INTT: return q120_new_intt_bb_precomp(t.m);
    case TB_Q120_BAA: return q120_new_vec_mat1col_product_baa_precomp();
    case TB_Q120_BBB: return q120_new_vec_mat1col_product_bbb_precomp();
    case TB_Q120_BBC: return q120_new_vec_mat1col_product_bbc_precomp();
  }
  return nullptr;
}
void table_delete(const TableSpec& t, void* p) {
  if (!p) return;
  switch (t.kind) {
    case TB_Q120_NTT: q120_del_ntt_bb_precomp((q120_ntt_precomp*)p); break;
    case TB_Q120_INTT: q120_del_intt_bb_precomp((q120_ntt_precomp*)p); break;
    case TB_Q120_BAA: q120_delete_vec_mat1col_product_baa_precomp((q120_mat1col_product_baa_precomp*)p); break;
    case TB_Q120_BBB: q120_delete_vec_mat1col_product_bbb_precomp((q120_mat1col_product_bbb_precomp*)p); break;
    case TB_Q120_BBC: q120_delete_vec_mat1col_product_bbc_precomp((q120_mat1col_product_bbc_precomp*)p); break;
    default: free(p);  // every other delete_*_precomp is "#define ... free" in the public headers
  }
}

void op_invoke(const Program& P, const Call& c, const std::vector<void*>& mods, const std::vector<void*>& tabs, uint8_t* const* ptr, uint8_t* tmp) {
  const MODULE* m = c.mod >= 0 ? MOD(mods, c.mod) : nullptr;
  const void* tb = c.tab >= 0 ? tabs[c.tab] : nullptr;
  auto Z = [&](int k) { return (int64_t*)ptr[k]; };
  auto SL = [&](int k) { return P.slots[c.s[k]].sl; };
  auto D = [&](int k) { return (double*)ptr[k]; };
  const uint32_t sm = (uint32_t)c.p[0];  // m for simple ops
  switch (c.op) {
    case OP_ZERO: vec_znx_zero(m, Z(0), c.sz[0], SL(0)); break;
    case OP_COPY: vec_znx_copy(m, Z(0), c.sz[0], SL(0), Z(1), c.sz[1], SL(1)); break;
    case OP_NEGATE: vec_znx_negate(m, Z(0), c.sz[0], SL(0), Z(1), c.sz[1], SL(1)); break;
    case OP_ADD: vec_znx_add(m, Z(0), c.sz[0], SL(0), Z(1), c.sz[1], SL(1), Z(2), c.sz[2], SL(2)); break;
    case OP_SUB: vec_znx_sub(m, Z(0), c.sz[0], SL(0), Z(1), c.sz[1], SL(1), Z(2), c.sz[2], SL(2)); break;
    case OP_ROTATE: vec_znx_rotate(m, c.ip, Z(0), c.sz[0], SL(0), Z(1), c.sz[1], SL(1)); break;
    case OP_AUTOMORPHISM: vec_znx_automorphism(m, c.ip, Z(0), c.sz[0], SL(0), Z(1), c.sz[1], SL(1)); break;
    case OP_NORMALIZE: vec_znx_normalize_base2k(m, c.p[0], Z(0), c.sz[0], SL(0), Z(1), c.sz[1], SL(1), tmp); break;
    case OP_DFT: vec_znx_dft(m, (VEC_ZNX_DFT*)ptr[0], c.sz[0], Z(1), c.sz[1], SL(1)); break;
    case OP_IDFT: vec_znx_idft(m, (VEC_ZNX_BIG*)ptr[0], c.sz[0], (const VEC_ZNX_DFT*)ptr[1], c.sz[1], tmp); break;
    case OP_IDFT_TMP_A: vec_znx_idft_tmp_a(m, (VEC_ZNX_BIG*)ptr[0], c.sz[0], (VEC_ZNX_DFT*)ptr[1], c.sz[1]); break;
    case OP_BIG_ADD: vec_znx_big_add(m, (VEC_ZNX_BIG*)ptr[0], c.sz[0], (VEC_ZNX_BIG*)ptr[1], c.sz[1], (VEC_ZNX_BIG*)ptr[2], c.sz[2]); break;
    case OP_BIG_SUB: vec_znx_big_sub(m, (VEC_ZNX_BIG*)ptr[0], c.sz[0], (VEC_ZNX_BIG*)ptr[1], c.sz[1], (VEC_ZNX_BIG*)ptr[2], c.sz[2]); break;
    case OP_BIG_ADD_SMALL: vec_znx_big_add_small(m, (VEC_ZNX_BIG*)ptr[0], c.sz[0], (VEC_ZNX_BIG*)ptr[1], c.sz[1], Z(2), c.sz[2], SL(2)); break;
    case OP_BIG_ADD_SMALL2: vec_znx_big_add_small2(m, (VEC_ZNX_BIG*)ptr[0], c.sz[0], Z(1), c.sz[1], SL(1), Z(2), c.sz[2], SL(2)); break;
    case OP_BIG_SUB_SMALL_A: vec_znx_big_sub_small_a(m, (VEC_ZNX_BIG*)ptr[0], c.sz[0], Z(1), c.sz[1], SL(1), (VEC_ZNX_BIG*)ptr[2], c.sz[2]); break;
    case OP_BIG_SUB_SMALL_B: vec_znx_big_sub_small_b(m, (VEC_ZNX_BIG*)ptr[0], c.sz[0], (VEC_ZNX_BIG*)ptr[1], c.sz[1], Z(2), c.sz[2], SL(2)); break;
    case OP_BIG_SUB_SMALL2: vec_znx_big_sub_small2(m, (VEC_ZNX_BIG*)ptr[0], c.sz[0], Z(1), c.sz[1], SL(1), Z(2), c.sz[2], SL(2)); break;
    case OP_BIG_ROTATE: vec_znx_big_rotate(m, c.ip, (VEC_ZNX_BIG*)ptr[0], c.sz[0], (VEC_ZNX_BIG*)ptr[1], c.sz[1]); break;
    case OP_BIG_AUTOMORPHISM: vec_znx_big_automorphism(m, c.ip, (VEC_ZNX_BIG*)ptr[0], c.sz[0], (VEC_ZNX_BIG*)ptr[1], c.sz[1]); break;
    case OP_BIG_NORMALIZE: vec_znx_big_normalize_base2k(m, c.p[0], Z(0), c.sz[0], SL(0), (VEC_ZNX_BIG*)ptr[1], c.sz[1], tmp); break;
    case OP_BIG_RANGE_NORMALIZE: vec_znx_big_range_normalize_base2k(m, c.p[0], Z(0), c.sz[0], SL(0), (VEC_ZNX_BIG*)ptr[1], c.p[1], c.p[2], c.p[3], tmp); break;
    case OP_SVP_PREPARE: svp_prepare(m, (SVP_PPOL*)ptr[0], Z(1)); break;
    case OP_SVP_APPLY_DFT: svp_apply_dft(m, (VEC_ZNX_DFT*)ptr[0], c.sz[0], (const SVP_PPOL*)ptr[1], Z(2), c.sz[2], SL(2)); break;
    case OP_VMP_PREPARE: vmp_prepare_contiguous(m, (VMP_PMAT*)ptr[0], Z(1), c.p[0], c.p[1], tmp); break;
    case OP_VMP_APPLY_DFT: vmp_apply_dft(m, (VEC_ZNX_DFT*)ptr[0], c.sz[0], Z(1), c.sz[1], SL(1), (const VMP_PMAT*)ptr[2], c.p[0], c.p[1], tmp); break;
    case OP_VMP_APPLY_DFT_TO_DFT: vmp_apply_dft_to_dft(m, (VEC_ZNX_DFT*)ptr[0], c.sz[0], (const VEC_ZNX_DFT*)ptr[1], c.sz[1], (const VMP_PMAT*)ptr[2], c.p[0], c.p[1], tmp); break;
    case OP_SMALL_PRODUCT: znx_small_single_product(m, Z(0), Z(1), Z(2), tmp); break;

    case OP_REIM_FFT: reim_fft((const REIM_FFT_PRECOMP*)tb, D(0)); break;
    case OP_REIM_IFFT: reim_ifft((const REIM_IFFT_PRECOMP*)tb, D(0)); break;
    case OP_REIM_MUL: reim_fftvec_mul((const REIM_FFTVEC_MUL_PRECOMP*)tb, D(0), D(1), D(2)); break;
    case OP_REIM_ADDMUL: reim_fftvec_addmul((const REIM_FFTVEC_ADDMUL_PRECOMP*)tb, D(0), D(1), D(2)); break;
    case OP_REIM_FROM_ZNX64: reim_from_znx64((const REIM_FROM_ZNX64_PRECOMP*)tb, ptr[0], Z(1)); break;
    case OP_REIM_TO_ZNX64: reim_to_znx64((const REIM_TO_ZNX64_PRECOMP*)tb, Z(0), ptr[1]); break;
    case OP_REIM_TO_TNX: reim_to_tnx((const REIM_TO_TNX_PRECOMP*)tb, D(0), D(1)); break;
    case OP_CPLX_FFT: cplx_fft((const CPLX_FFT_PRECOMP*)tb, ptr[0]); break;
    case OP_CPLX_IFFT: cplx_ifft((const CPLX_IFFT_PRECOMP*)tb, ptr[0]); break;
    case OP_CPLX_MUL: cplx_fftvec_mul((const CPLX_FFTVEC_MUL_PRECOMP*)tb, ptr[0], ptr[1], ptr[2]); break;
    case OP_CPLX_ADDMUL: cplx_fftvec_addmul((const CPLX_FFTVEC_ADDMUL_PRECOMP*)tb, ptr[0], ptr[1], ptr[2]); break;
    case OP_CPLX_FROM_ZNX32: cplx_from_znx32((const CPLX_FROM_ZNX32_PRECOMP*)tb, ptr[0], (const int32_t*)ptr[1]); break;
    case OP_CPLX_FROM_TNX32: cplx_from_tnx32((const CPLX_FROM_TNX32_PRECOMP*)tb, ptr[0], (const int32_t*)ptr[1]); break;
    case OP_CPLX_TO_TNX32: cplx_to_tnx32((const CPLX_TO_TNX32_PRECOMP*)tb, (int32_t*)ptr[0], ptr[1]); break;
    case OP_R4_MUL: reim4_fftvec_mul((const REIM4_FFTVEC_MUL_PRECOMP*)tb, D(0), D(1), D(2)); break;
    case OP_R4_ADDMUL: reim4_fftvec_addmul((const REIM4_FFTVEC_ADDMUL_PRECOMP*)tb, D(0), D(1), D(2)); break;
    case OP_R4_FROM_CPLX: reim4_from_cplx((const REIM4_FROM_CPLX_PRECOMP*)tb, D(0), ptr[1]); break;
    case OP_R4_TO_CPLX: reim4_to_cplx((const REIM4_TO_CPLX_PRECOMP*)tb, ptr[0], D(1)); break;
    case OP_Q120_NTT: q120_ntt_bb_avx2((const q120_ntt_precomp*)tb, (q120b*)ptr[0]); break;
    case OP_Q120_INTT: q120_intt_bb_avx2((const q120_ntt_precomp*)tb, (q120b*)ptr[0]); break;
    case OP_Q120_BAA_REF: q120_vec_mat1col_product_baa_ref((q120_mat1col_product_baa_precomp*)tb, c.p[0], (q120b*)ptr[0], (q120a*)ptr[1], (q120a*)ptr[2]); break;
    case OP_Q120_BAA_AVX2: q120_vec_mat1col_product_baa_avx2((q120_mat1col_product_baa_precomp*)tb, c.p[0], (q120b*)ptr[0], (q120a*)ptr[1], (q120a*)ptr[2]); break;
    case OP_Q120_BBB_REF: q120_vec_mat1col_product_bbb_ref((q120_mat1col_product_bbb_precomp*)tb, c.p[0], (q120b*)ptr[0], (q120b*)ptr[1], (q120b*)ptr[2]); break;
    case OP_Q120_BBB_AVX2: q120_vec_mat1col_product_bbb_avx2((q120_mat1col_product_bbb_precomp*)tb, c.p[0], (q120b*)ptr[0], (q120b*)ptr[1], (q120b*)ptr[2]); break;
    case OP_Q120_BBC_REF: q120_vec_mat1col_product_bbc_ref((q120_mat1col_product_bbc_precomp*)tb, c.p[0], (q120b*)ptr[0], (q120b*)ptr[1], (q120c*)ptr[2]); break;
    case OP_Q120_BBC_AVX2: q120_vec_mat1col_product_bbc_avx2((q120_mat1col_product_bbc_precomp*)tb, c.p[0], (q120b*)ptr[0], (q120b*)ptr[1], (q120c*)ptr[2]); break;
    case OP_Q120X2_1COL_REF: q120x2_vec_mat1col_product_bbc_ref((q120_mat1col_product_bbc_precomp*)tb, c.p[0], (q120b*)ptr[0], (q120b*)ptr[1], (q120c*)ptr[2]); break;
    case OP_Q120X2_1COL_AVX2: q120x2_vec_mat1col_product_bbc_avx2((q120_mat1col_product_bbc_precomp*)tb, c.p[0], (q120b*)ptr[0], (q120b*)ptr[1], (q120c*)ptr[2]); break;
    case OP_Q120X2_2COLS_REF: q120x2_vec_mat2cols_product_bbc_ref((q120_mat1col_product_bbc_precomp*)tb, c.p[0], (q120b*)ptr[0], (q120b*)ptr[1], (q120c*)ptr[2]); break;
    case OP_Q120X2_2COLS_AVX2: q120x2_vec_mat2cols_product_bbc_avx2((q120_mat1col_product_bbc_precomp*)tb, c.p[0], (q120b*)ptr[0], (q120b*)ptr[1], (q120c*)ptr[2]); break;
    case OP_Q120_B_FROM_ZNX64: q120_b_from_znx64_simple(c.p[0], (q120b*)ptr[0], Z(1)); break;
    case OP_Q120_C_FROM_ZNX64: q120_c_from_znx64_simple(c.p[0], (q120c*)ptr[0], Z(1)); break;
    case OP_Q120_C_FROM_B: q120_c_from_b_simple(c.p[0], (q120c*)ptr[0], (q120b*)ptr[1]); break;
    case OP_Q120_B_TO_ZNX128: q120_b_to_znx128_simple(c.p[0], (__int128_t*)ptr[0], (q120b*)ptr[1]); break;
    case OP_Q120_ADD_BBB: q120_add_bbb_simple(c.p[0], (q120b*)ptr[0], (q120b*)ptr[1], (q120b*)ptr[2]); break;
    case OP_Q120_ADD_CCC: q120_add_ccc_simple(c.p[0], (q120c*)ptr[0], (q120c*)ptr[1], (q120c*)ptr[2]); break;
    case OP_Q120X2_EXTRACT_B: q120x2_extract_1blk_from_q120b_ref(c.p[0], c.p[1], (q120x2b*)ptr[0], (const q120b*)ptr[1]); break;
    case OP_Q120X2_EXTRACT_C: q120x2_extract_1blk_from_q120c_ref(c.p[0], c.p[1], (q120x2c*)ptr[0], (const q120c*)ptr[1]); break;
    case OP_Q120X2_EXTRACT_CONTIG: q120x2_extract_1blk_from_contiguous_q120b_ref(c.p[0], c.p[2], c.p[1], (q120x2b*)ptr[0], (const q120b*)ptr[1]); break;
    case OP_Q120X2_SAVE: q120x2b_save_1blk_to_q120b_ref(c.p[0], c.p[1], (q120b*)ptr[0], (const q120x2b*)ptr[1]); break;
    case OP_ZNX_ADD_REF: znx_add_i64_ref(c.p[0], (int64_t*)ptr[0], Z(1), Z(2)); break;
    case OP_ZNX_ADD_AVX: znx_add_i64_avx(c.p[0], (int64_t*)ptr[0], Z(1), Z(2)); break;
    case OP_ZNX_SUB_REF: znx_sub_i64_ref(c.p[0], (int64_t*)ptr[0], Z(1), Z(2)); break;
    case OP_ZNX_SUB_AVX: znx_sub_i64_avx(c.p[0], (int64_t*)ptr[0], Z(1), Z(2)); break;
    case OP_ZNX_NEG_REF: znx_negate_i64_ref(c.p[0], (int64_t*)ptr[0], Z(1)); break;
    case OP_ZNX_NEG_AVX: znx_negate_i64_avx(c.p[0], (int64_t*)ptr[0], Z(1)); break;
    case OP_RNX_DIV_REF: { double m; memcpy(&m, &c.p[1], 8); rnx_divide_by_m_ref(c.p[0], m, (double*)ptr[0], (const double*)ptr[1]); break; }
    case OP_R4_1COL_REF: reim4_vec_mat1col_product_ref(c.p[0], D(0), D(1), D(2)); break;
    case OP_R4_1COL_AVX2: reim4_vec_mat1col_product_avx2(c.p[0], D(0), D(1), D(2)); break;
    case OP_R4_2COLS_REF: reim4_vec_mat2cols_product_ref(c.p[0], D(0), D(1), D(2)); break;
    case OP_R4_2COLS_AVX2: reim4_vec_mat2cols_product_avx2(c.p[0], D(0), D(1), D(2)); break;
    case OP_CPLX_ADDMUL_KREF: cplx_fftvec_addmul_ref((const CPLX_FFTVEC_ADDMUL_PRECOMP*)tb, ptr[0], ptr[1], ptr[2]); break;
    case OP_CPLX_ADDMUL_KSSE:
      // (the kernel uses FMA instructions; on a host without them the portable kernel stands in, nothing is compared then)
      if (__builtin_cpu_supports("fma"))
        cplx_fftvec_addmul_sse((const CPLX_FFTVEC_ADDMUL_PRECOMP*)tb, ptr[0], ptr[1], ptr[2]);
      else
        cplx_fftvec_addmul_ref((const CPLX_FFTVEC_ADDMUL_PRECOMP*)tb, ptr[0], ptr[1], ptr[2]);
      break;
    case OP_CPLX_ADDMUL_KAVX512:
      if (__builtin_cpu_supports("avx512f"))
        cplx_fftvec_addmul_avx512((const CPLX_FFTVEC_ADDMUL_PRECOMP*)tb, ptr[0], ptr[1], ptr[2]);
      else
        cplx_fftvec_addmul_ref((const CPLX_FFTVEC_ADDMUL_PRECOMP*)tb, ptr[0], ptr[1], ptr[2]);
      break;
    case OP_RNX_DIV_AVX: { double m; memcpy(&m, &c.p[1], 8); rnx_divide_by_m_avx(c.p[0], m, (double*)ptr[0], (const double*)ptr[1]); break; }

    case OP_REIM_FFT_SIMPLE: reim_fft_simple(sm, ptr[0]); break;
    case OP_REIM_IFFT_SIMPLE: reim_ifft_simple(sm, ptr[0]); break;
    case OP_REIM_MUL_SIMPLE: reim_fftvec_mul_simple(sm, ptr[0], ptr[1], ptr[2]); break;
    case OP_REIM_ADDMUL_SIMPLE: reim_fftvec_addmul_simple(sm, ptr[0], ptr[1], ptr[2]); break;
    case OP_REIM_FROM_ZNX64_SIMPLE: reim_from_znx64_simple(sm, (uint32_t)c.p[1], ptr[0], Z(1)); break;
    case OP_REIM_TO_ZNX64_SIMPLE: reim_to_znx64_simple(sm, c.dp, (uint32_t)c.p[1], Z(0), ptr[1]); break;
    case OP_CPLX_FFT_SIMPLE: cplx_fft_simple(sm, ptr[0]); break;
    case OP_CPLX_IFFT_SIMPLE: cplx_ifft_simple(sm, ptr[0]); break;
    case OP_CPLX_MUL_SIMPLE: cplx_fftvec_mul_simple(sm, ptr[0], ptr[1], ptr[2]); break;
    case OP_CPLX_ADDMUL_SIMPLE: cplx_fftvec_addmul_simple(sm, ptr[0], ptr[1], ptr[2]); break;
    case OP_CPLX_FROM_ZNX32_SIMPLE: cplx_from_znx32_simple(sm, ptr[0], (const int32_t*)ptr[1]); break;
    case OP_CPLX_FROM_TNX32_SIMPLE: cplx_from_tnx32_simple(sm, ptr[0], (const int32_t*)ptr[1]); break;
    case OP_CPLX_TO_TNX32_SIMPLE: cplx_to_tnx32_simple(sm, c.dp, (uint32_t)c.p[1], (int32_t*)ptr[0], ptr[1]); break;
    case OP_R4_MUL_SIMPLE: reim4_fftvec_mul_simple(sm, D(0), D(1), D(2)); break;
    case OP_R4_ADDMUL_SIMPLE: reim4_fftvec_addmul_simple(sm, D(0), D(1), D(2)); break;
    case OP_R4_FROM_CPLX_SIMPLE: reim4_from_cplx_simple(sm, D(0), ptr[1]); break;
    case OP_R4_TO_CPLX_SIMPLE: reim4_to_cplx_simple(sm, ptr[0], D(1)); break;

    case OP_LIFE_MODULE: {
      MODULE* x = new_module_info(c.p[0], c.p[1] ? NTT120 : FFT64);
      delete_module_info(x);
      break;
    }
    case OP_LIFE_DFT: delete_vec_znx_dft(new_vec_znx_dft(m, c.p[0])); break;
    case OP_LIFE_BIG: delete_vec_znx_big(new_vec_znx_big(m, c.p[0])); break;
    case OP_LIFE_PPOL: delete_svp_ppol(new_svp_ppol(m)); break;
    case OP_LIFE_PMAT: delete_vmp_pmat(new_vmp_pmat(m, c.p[0], c.p[1])); break;
    case OP_LIFE_ALLOC: {
      // the library's public allocation layer
      void* a = c.p[1] ? spqlios_alloc_custom_align(c.p[1], c.p[0]) : spqlios_alloc(c.p[0]);
      if (c.p[0]) memset(a, 0x5a, c.p[0]);
      spqlios_free(a);
      break;
    }
    case OP_LIFE_FFT_BUFFERS: {
      // tables created with built-in scratch buffers: every buffer is BUF_SIZE bytes, usable as transform data
      const uint32_t mm = (uint32_t)c.p[1], nb = (uint32_t)c.p[2];
      // every built-in buffer must behave like any other data buffer: the transform on it equals, bit for bit, the
      // transform of the same data with a table that has no buffers (the buffers must not overlap the table)
      double* ref = (double*)malloc(2 * (size_t)mm * sizeof(double) + 8);
      int bad = 0;
      auto fill = [&](double* b, uint32_t i) {
        for (uint32_t j = 0; j < 2 * mm; ++j) ref[j] = b[j] = (double)((j * 7 + i * 3) % 1000) - 500.0;
      };
      auto cmp = [&](const double* b) {
        if (memcmp(b, ref, 2 * (size_t)mm * sizeof(double)) != 0) bad++;
      };
      // all buffers hold live data at once (fill all, transform all, then compare all): buffers that overlap each other
      // or the tables are seen as well as a single wrong one
      std::vector<std::vector<double>> keep(nb);
      auto pattern = [&](std::vector<double>& v, uint32_t i) {
        v.resize(2 * (size_t)mm);
        for (uint32_t j = 0; j < 2 * mm; ++j) v[j] = (double)((j * 7 + i * 3) % 1000) - 500.0;
      };
      auto all_live = [&](auto get, auto run, auto run0) {
        for (uint32_t i = 0; i < nb; ++i) {
          pattern(keep[i], i);
          memcpy(get(i), keep[i].data(), 2 * (size_t)mm * sizeof(double));
        }
        for (uint32_t i = 0; i < nb; ++i) run((double*)get(i));
        for (uint32_t i = 0; i < nb; ++i) {
          run0(keep[i].data());
          if (memcmp(get(i), keep[i].data(), 2 * (size_t)mm * sizeof(double)) != 0) bad++;
        }
        // and one at a time
        for (uint32_t i = 0; i < nb; ++i) {
          double* bq = (double*)get(i);
          fill(bq, i);
          run(bq);
          run0(ref);
          cmp(bq);
        }
      };
      if (c.p[0] == 0) {
        REIM_FFT_PRECOMP* t = new_reim_fft_precomp(mm, nb);
        REIM_FFT_PRECOMP* t0 = new_reim_fft_precomp(mm, 0);
        all_live([&](uint32_t i) { return (void*)reim_fft_precomp_get_buffer(t, i); }, [&](double* d) { reim_fft(t, d); }, [&](double* d) { reim_fft(t0, d); });
        delete_reim_fft_precomp(t);
        delete_reim_fft_precomp(t0);
      } else if (c.p[0] == 1) {
        REIM_IFFT_PRECOMP* t = new_reim_ifft_precomp(mm, nb);
        REIM_IFFT_PRECOMP* t0 = new_reim_ifft_precomp(mm, 0);
        all_live([&](uint32_t i) { return (void*)reim_ifft_precomp_get_buffer(t, i); }, [&](double* d) { reim_ifft(t, d); }, [&](double* d) { reim_ifft(t0, d); });
        delete_reim_ifft_precomp(t);
        delete_reim_ifft_precomp(t0);
      } else if (c.p[0] == 2) {
        CPLX_FFT_PRECOMP* t = new_cplx_fft_precomp(mm, nb);
        CPLX_FFT_PRECOMP* t0 = new_cplx_fft_precomp(mm, 0);
        all_live([&](uint32_t i) { return (void*)cplx_fft_precomp_get_buffer(t, i); }, [&](double* d) { cplx_fft(t, d); }, [&](double* d) { cplx_fft(t0, d); });
        delete_cplx_fft_precomp(t);
        delete_cplx_fft_precomp(t0);
      } else {
        CPLX_IFFT_PRECOMP* t = new_cplx_ifft_precomp(mm, nb);
        CPLX_IFFT_PRECOMP* t0 = new_cplx_ifft_precomp(mm, 0);
        all_live([&](uint32_t i) { return (void*)cplx_ifft_precomp_get_buffer(t, i); }, [&](double* d) { cplx_ifft(t, d); }, [&](double* d) { cplx_ifft(t0, d); });
        delete_cplx_ifft_precomp(t);
        delete_cplx_ifft_precomp(t0);
      }
      free(ref);
      op_selfcheck_errors() = bad;
      break;
    }
    case OP_LIFE_MODULE_PAIR: {
      // module instances are independent objects: deleting one must not affect another of the same dimension
      const uint64_t n = c.p[0];
      const MODULE_TYPE t = c.p[1] ? NTT120 : FFT64;
      uint64_t s0 = sim_lib_alloc_mark();
      MODULE* m1 = new_module_info(n, t);
      uint64_t s1 = sim_lib_alloc_mark();
      MODULE* m2 = new_module_info(n, t);
      uint64_t s2 = sim_lib_alloc_mark();
      MODULE* victim = c.p[2] ? m2 : m1;
      MODULE* surv = c.p[2] ? m1 : m2;
      delete_module_info(victim);
      int64_t* a = (int64_t*)malloc(n * 8);
      void* d = malloc(n * (t == NTT120 ? 32 : 8));
      void* b = malloc(n * 16);
      uint64_t tb = vec_znx_idft_tmp_bytes(surv);
      uint8_t* tmp2 = (uint8_t*)malloc(tb ? tb : 8);
      for (uint64_t i = 0; i < n; ++i) a[i] = (int64_t)((i * 2654435761u + c.p[3]) % 1021) - 510;
      vec_znx_dft(surv, (VEC_ZNX_DFT*)d, 1, a, 1, n);
      vec_znx_idft(surv, (VEC_ZNX_BIG*)b, 1, (const VEC_ZNX_DFT*)d, 1, tmp2);
      int bad = 0;
      for (uint64_t i = 0; i < n; ++i) {
        if (t == NTT120) {
          __int128 v;
          memcpy(&v, (uint8_t*)b + i * 16, 16);
          if (v != (__int128)a[i]) bad++;
        } else if (((int64_t*)b)[i] != a[i])
          bad++;
      }
      op_selfcheck_errors() = bad;
      free(a);
      free(d);
      free(b);
      free(tmp2);
      delete_module_info(surv);
      // conservation is bracketed per new/delete pair only (memory a function allocates lazily while being *used* is not
      // the pair's): with both modules gone nothing allocated inside either new_module_info may be live
      if (sim_current_task() < 0) op_leak_errors() = sim_lib_live_in_range(s0, s1) + sim_lib_live_in_range(s1, s2);
      break;
    }
    case OP_LIFE_MODULE_SEQ: {
      // up to four module handles over three dimensions are created, used and deleted in a seeded order; every use
      // checks idft(dft(a)) == a and an out-of-place automorphism against the definition. What one module instance does
      // must not depend on which other instances exist, existed, or lived at the same address.
      uint64_t st = c.p[0] * 0x9E3779B97F4A7C15ull + 7;
      auto rnd = [&]() {
        st ^= st << 13;
        st ^= st >> 7;
        st ^= st << 17;
        return st;
      };
      MODULE_TYPE t = c.p[2] == 1 ? NTT120 : FFT64;  // p2 == 2: the kind is drawn per handle
      MODULE_TYPE ht[4] = {t, t, t, t};
      uint64_t dims[3];
      for (int i = 0; i < 3; ++i) dims[i] = 1ull << (1 + (rnd() >> 33) % (c.p[3] ? c.p[3] : 6));
      static const int64_t ps[] = {3, 5, -1, 7, -3, 1};
      MODULE* h[4] = {0, 0, 0, 0};
      uint64_t hn[4] = {0, 0, 0, 0}, lo[4] = {0, 0, 0, 0}, hi[4] = {0, 0, 0, 0};
      int bad = 0, leaks = 0;
      std::vector<std::pair<uint64_t, uint64_t>> closed;  // allocation windows of modules already deleted
      for (uint64_t step = 0; step < c.p[1]; ++step) {
        int k = (int)((rnd() >> 40) & 3);
        uint64_t what = (rnd() >> 35) % 3;
        if (!h[k]) {
          hn[k] = dims[(rnd() >> 37) % 3];
          if (c.p[2] == 2) ht[k] = ((rnd() >> 41) & 1) ? NTT120 : FFT64;
          lo[k] = sim_lib_alloc_mark();
          h[k] = new_module_info(hn[k], ht[k]);
          hi[k] = sim_lib_alloc_mark();
        } else if (what == 0) {
          delete_module_info(h[k]);
          h[k] = 0;
          closed.push_back({lo[k], hi[k]});
        } else {
          const uint64_t n = hn[k];
          t = ht[k];
          int64_t* a = (int64_t*)malloc(n * 8);
          int64_t* r = (int64_t*)malloc(n * 8);
          void* d = malloc(n * (t == NTT120 ? 32 : 8));
          void* b = malloc(n * 16);
          uint64_t tb = vec_znx_idft_tmp_bytes(h[k]);
          uint8_t* tmp2 = (uint8_t*)malloc(tb ? tb : 8);
          for (uint64_t i = 0; i < n; ++i) a[i] = (int64_t)((rnd() >> 30) % 1021) - 510;
          vec_znx_dft(h[k], (VEC_ZNX_DFT*)d, 1, a, 1, n);
          vec_znx_idft(h[k], (VEC_ZNX_BIG*)b, 1, (const VEC_ZNX_DFT*)d, 1, tmp2);
          for (uint64_t i = 0; i < n; ++i) {
            if (t == NTT120) {
              __int128 v;
              memcpy(&v, (uint8_t*)b + i * 16, 16);
              if (v != (__int128)a[i]) bad++;
            } else if (((int64_t*)b)[i] != a[i])
              bad++;
          }
          const int64_t p = ps[(rnd() >> 36) % 6];
          vec_znx_automorphism(h[k], p, r, 1, n, a, 1, n);
          for (uint64_t i = 0; i < n; ++i) {
            uint64_t e = (i * (uint64_t)p) & (2 * n - 1);
            int64_t want = e < n ? a[i] : -a[i];
            if (r[e < n ? e : e - n] != want) bad++;
          }
          // the in-place paths on the same buffers: automorphism back (p * p^-1 = 1 is not needed: compare with the
          // out-of-place result), then a rotation and its inverse
          memcpy(b, a, n * 8);
          vec_znx_automorphism(h[k], p, (int64_t*)b, 1, n, (int64_t*)b, 1, n);
          if (memcmp(b, r, n * 8) != 0) bad++;
          const int64_t q = (int64_t)((rnd() >> 34) % (2 * n));
          vec_znx_rotate(h[k], q, (int64_t*)b, 1, n, (int64_t*)b, 1, n);
          vec_znx_rotate(h[k], -q, (int64_t*)b, 1, n, (int64_t*)b, 1, n);
          if (memcmp(b, r, n * 8) != 0) bad++;
          free(a);
          free(r);
          free(d);
          free(b);
          free(tmp2);
        }
      }
      for (int k = 0; k < 4; ++k)
        if (h[k]) {
          delete_module_info(h[k]);
          closed.push_back({lo[k], hi[k]});
        }
      // all modules are gone: nothing allocated inside any new_module_info may be live (shared tables included)
      for (auto& w : closed) leaks += sim_lib_live_in_range(w.first, w.second);
      if (sim_current_task() < 0) op_leak_errors() = leaks;
      op_selfcheck_errors() = bad;
      break;
    }
    case OP_LIFE_TABLE_SEQ: {
      // up to twelve table handles over a small pool of (kind, dimension) keys are created, used and deleted in a seeded
      // order, duplicates of one key alive at once included. Every use transforms data derived from the key alone; all
      // uses of one key - whichever instance, whenever built - must return the same bytes, and at the end nothing that
      // was allocated may be live. (Registries, reference counts, "last built" shortcuts and shared tables live here.)
      uint64_t st = c.p[0] * 0x9E3779B97F4A7C15ull + 11;
      auto rnd = [&]() {
        st ^= st << 13;
        st ^= st >> 7;
        st ^= st << 17;
        return st;
      };
      static const int kinds_all[] = {TB_Q120_NTT, TB_Q120_INTT, TB_REIM_FFT, TB_REIM_IFFT, TB_CPLX_FFT, TB_CPLX_IFFT, TB_Q120_BAA, TB_Q120_BBB, TB_Q120_BBC};
      const int nkeys = 2 + (int)(c.p[2] % 9);  // 2..10 keys
      struct Key {
        int kind;
        uint64_t dim;
        uint64_t ref;
        bool has_ref;
      };
      std::vector<Key> keys;
      const bool q120_heavy = (rnd() >> 20) & 1;
      for (int i = 0; i < nkeys; ++i) {
        Key k;
        k.kind = q120_heavy ? kinds_all[(rnd() >> 33) % 2] : kinds_all[(rnd() >> 33) % 9];
        k.dim = 1ull << (1 + (rnd() >> 36) % (c.p[3] ? c.p[3] : 6));
        if (k.kind >= TB_Q120_BAA) k.dim = 1 + (rnd() >> 38) % 7;  // ell of the product
        k.ref = 0;
        k.has_ref = false;
        keys.push_back(k);
      }
      const int NH = 12;
      void* h[NH];
      int hk[NH];
      uint64_t lo[NH], hi[NH];
      for (int i = 0; i < NH; ++i) h[i] = nullptr;
      int bad = 0, leaks = 0;
      std::vector<std::pair<uint64_t, uint64_t>> closed;
      auto spec = [&](const Key& k) {
        TableSpec t;
        t.kind = k.kind;
        t.m = k.kind >= TB_Q120_BAA ? 0 : k.dim;
        t.divisor = 1;
        t.log2 = 0;
        return t;
      };
      auto use = [&](void* tb, Key& k) {
        uint64_t ds = (uint64_t)k.kind * 1000003ull + k.dim * 7919ull + 1;
        auto dr = [&]() {
          ds ^= ds << 13;
          ds ^= ds >> 7;
          ds ^= ds << 17;
          return ds;
        };
        uint64_t hsh = 0xcbf29ce484222325ull;
        if (k.kind == TB_Q120_NTT || k.kind == TB_Q120_INTT) {
          uint64_t* d = (uint64_t*)malloc(k.dim * 32 + 32);
          uint64_t* dd = (uint64_t*)(((uintptr_t)d + 31) & ~(uintptr_t)31);
          for (uint64_t i = 0; i < 4 * k.dim; ++i) dd[i] = dr() >> 2;
          if (k.kind == TB_Q120_NTT)
            q120_ntt_bb_avx2((const q120_ntt_precomp*)tb, (q120b*)dd);
          else
            q120_intt_bb_avx2((const q120_ntt_precomp*)tb, (q120b*)dd);
          // lazy lanes: compare modulo the primes
          static const uint64_t QQ[4] = {Q1, Q2, Q3, Q4};
          for (uint64_t i = 0; i < 4 * k.dim; ++i) {
            uint64_t v = dd[i] % QQ[i & 3];
            hsh = hash_bytes(&v, 8, hsh);
          }
          free(d);
        } else if (k.kind == TB_Q120_BAA || k.kind == TB_Q120_BBB || k.kind == TB_Q120_BBC) {
          const uint64_t ell = k.dim;
          uint64_t* x = (uint64_t*)malloc(ell * 32 + 8);
          uint64_t* y = (uint64_t*)malloc(ell * 32 + 8);
          uint64_t res[4] = {0, 0, 0, 0};
          static const uint64_t QQ[4] = {Q1, Q2, Q3, Q4};
          if (k.kind == TB_Q120_BAA) {
            for (uint64_t i = 0; i < 4 * ell; ++i) x[i] = dr() >> 33, y[i] = dr() >> 33;
            q120_vec_mat1col_product_baa_ref((q120_mat1col_product_baa_precomp*)tb, ell, (q120b*)res, (q120a*)x, (q120a*)y);
          } else if (k.kind == TB_Q120_BBB) {
            for (uint64_t i = 0; i < 4 * ell; ++i) x[i] = dr(), y[i] = dr();
            q120_vec_mat1col_product_bbb_ref((q120_mat1col_product_bbb_precomp*)tb, ell, (q120b*)res, (q120b*)x, (q120b*)y);
          } else {
            for (uint64_t i = 0; i < 4 * ell; ++i) x[i] = dr();
            uint32_t* yc = (uint32_t*)y;
            for (uint64_t i = 0; i < 8 * ell; ++i) yc[i] = (uint32_t)(dr() >> 33);
            q120_vec_mat1col_product_bbc_ref((q120_mat1col_product_bbc_precomp*)tb, ell, (q120b*)res, (q120b*)x, (q120c*)y);
          }
          for (int i = 0; i < 4; ++i) {
            uint64_t v = res[i] % QQ[i];
            hsh = hash_bytes(&v, 8, hsh);
          }
          free(x);
          free(y);
        } else {
          const uint64_t m = k.dim;
          double* d = (double*)malloc(2 * m * 8 + 8);
          for (uint64_t i = 0; i < 2 * m; ++i) d[i] = (double)((int64_t)(dr() >> 44) - (1 << 19));
          switch (k.kind) {
            case TB_REIM_FFT: reim_fft((const REIM_FFT_PRECOMP*)tb, d); break;
            case TB_REIM_IFFT: reim_ifft((const REIM_IFFT_PRECOMP*)tb, d); break;
            case TB_CPLX_FFT: cplx_fft((const CPLX_FFT_PRECOMP*)tb, d); break;
            default: cplx_ifft((const CPLX_IFFT_PRECOMP*)tb, d); break;
          }
          hsh = hash_bytes(d, 2 * m * 8, hsh);
          free(d);
        }
        if (!k.has_ref) {
          k.ref = hsh;
          k.has_ref = true;
        } else if (k.ref != hsh)
          bad++;
      };
      for (uint64_t step = 0; step < c.p[1]; ++step) {
        int i = (int)((rnd() >> 40) % NH);
        uint64_t what = (rnd() >> 35) % 4;
        if (!h[i]) {
          hk[i] = (int)((rnd() >> 37) % (uint64_t)nkeys);
          lo[i] = sim_lib_alloc_mark();
          h[i] = table_create(spec(keys[hk[i]]));
          hi[i] = sim_lib_alloc_mark();
          if ((rnd() >> 39) & 1) use(h[i], keys[hk[i]]);
        } else if (what == 0) {
          table_delete(spec(keys[hk[i]]), h[i]);
          h[i] = nullptr;
          closed.push_back({lo[i], hi[i]});
        } else {
          use(h[i], keys[hk[i]]);
        }
      }
      for (int i = 0; i < NH; ++i)
        if (h[i]) {
          if ((rnd() >> 39) & 1) use(h[i], keys[hk[i]]);
          table_delete(spec(keys[hk[i]]), h[i]);
          closed.push_back({lo[i], hi[i]});
        }
      for (auto& w : closed) leaks += sim_lib_live_in_range(w.first, w.second);
      if (sim_current_task() < 0) op_leak_errors() = leaks;
      op_selfcheck_errors() = bad;
      break;
    }
    case OP_LIFE_TABLE: {
      TableSpec t;
      t.kind = (int)c.p[0];
      t.m = c.p[1];
      t.divisor = c.dp;
      t.log2 = (uint32_t)c.p[2];
      table_delete(t, table_create(t));
      break;
    }
    default:
      fprintf(stderr, "op_invoke: bad op %d\n", c.op);
      abort();
  }
}
