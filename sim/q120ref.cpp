// q120ref.cpp -- ride-along reference for the q120 entry points: lane-wise congruences modulo the four primes, computed
// with 128-bit arithmetic straight from the layout definitions in q120_common.h. This is not simulation (these are pure
// functions of their operands); it rides in the refinement world so that a program mixing q120 calls is also checked
// against exact arithmetic. Returns an empty string when the result is right.
#include "world.h"

#include "spqlios/q120/q120_common.h"

static const uint64_t QS[4] = {Q1, Q2, Q3, Q4};

static inline uint64_t mulmod(uint64_t a, uint64_t b, uint64_t q) { return (uint64_t)(((u128)(a % q) * (b % q)) % q); }
static inline uint64_t smod(int64_t x, uint64_t q) {
  int64_t r = (int64_t)(x % (int64_t)q);
  return (uint64_t)(r < 0 ? r + (int64_t)q : r);
}

std::string q120_reference_check(const Program& P, const Call& c, uint8_t* const* ptr) {
  (void)P;
  auto err = [&](const char* what, uint64_t i) { return std::string(what) + " at lane " + std::to_string(i); };
  switch (c.op) {
    case OP_Q120_ADD_BBB: {
      const uint64_t* r = (const uint64_t*)ptr[0];
      const uint64_t* x = (const uint64_t*)ptr[1];
      const uint64_t* y = (const uint64_t*)ptr[2];
      for (uint64_t i = 0; i < 4 * c.p[0]; ++i) {
        uint64_t q = QS[i & 3];
        if (r[i] % q != (x[i] % q + y[i] % q) % q) return err("q120_add_bbb: not congruent to x+y", i);
      }
      return "";
    }
    case OP_Q120_ADD_CCC: {
      const uint32_t* r = (const uint32_t*)ptr[0];
      const uint32_t* x = (const uint32_t*)ptr[1];
      const uint32_t* y = (const uint32_t*)ptr[2];
      for (uint64_t i = 0; i < 8 * c.p[0]; ++i) {
        uint64_t q = QS[(i & 7) >> 1];
        if (r[i] % q != ((uint64_t)x[i] + y[i]) % q) return err("q120_add_ccc: not congruent to x+y", i);
      }
      return "";
    }
    case OP_Q120_B_FROM_ZNX64: {
      const uint64_t* r = (const uint64_t*)ptr[0];
      const int64_t* x = (const int64_t*)ptr[1];
      for (uint64_t j = 0; j < c.p[0]; ++j)
        for (int k = 0; k < 4; ++k)
          if (r[4 * j + k] % QS[k] != smod(x[j], QS[k])) return err("q120_b_from_znx64: not congruent to x", 4 * j + k);
      return "";
    }
    case OP_Q120_C_FROM_ZNX64: {
      const uint32_t* r = (const uint32_t*)ptr[0];
      const int64_t* x = (const int64_t*)ptr[1];
      for (uint64_t j = 0; j < c.p[0]; ++j)
        for (int k = 0; k < 4; ++k) {
          uint64_t v = smod(x[j], QS[k]);
          if (r[8 * j + 2 * k] % QS[k] != v) return err("q120_c_from_znx64: first word not congruent to x", 8 * j + 2 * k);
          if (r[8 * j + 2 * k + 1] % QS[k] != mulmod(v, 1ull << 32, QS[k])) return err("q120_c_from_znx64: second word not congruent to x*2^32", 8 * j + 2 * k + 1);
        }
      return "";
    }
    case OP_Q120_C_FROM_B: {
      const uint32_t* r = (const uint32_t*)ptr[0];
      const uint64_t* x = (const uint64_t*)ptr[1];
      for (uint64_t j = 0; j < c.p[0]; ++j)
        for (int k = 0; k < 4; ++k) {
          uint64_t v = x[4 * j + k] % QS[k];
          if (r[8 * j + 2 * k] % QS[k] != v) return err("q120_c_from_b: first word not congruent to x", 8 * j + 2 * k);
          if (r[8 * j + 2 * k + 1] % QS[k] != mulmod(v, 1ull << 32, QS[k])) return err("q120_c_from_b: second word not congruent to x*2^32", 8 * j + 2 * k + 1);
        }
      return "";
    }
    case OP_Q120_B_TO_ZNX128: {
      const uint64_t* x = (const uint64_t*)ptr[1];
      const i128 Q = (i128)Q1 * Q2 * Q3 * Q4;
      for (uint64_t j = 0; j < c.p[0]; ++j) {
        i128 v;
        memcpy(&v, ptr[0] + 16 * j, 16);
        if (v > Q / 2 || v < -(Q / 2)) return err("q120_b_to_znx128: not the centered representative", j);
        for (int k = 0; k < 4; ++k) {
          i128 m = v % (i128)QS[k];
          if (m < 0) m += QS[k];
          if ((uint64_t)m != x[4 * j + k] % QS[k]) return err("q120_b_to_znx128: not congruent to the lanes", 4 * j + k);
        }
      }
      return "";
    }
    case OP_Q120_BAA_REF:
    case OP_Q120_BAA_AVX2:
    case OP_Q120_BBB_REF:
    case OP_Q120_BBB_AVX2: {
      const uint64_t* r = (const uint64_t*)ptr[0];
      const uint64_t* x = (const uint64_t*)ptr[1];
      const uint64_t* y = (const uint64_t*)ptr[2];
      for (int k = 0; k < 4; ++k) {
        uint64_t acc = 0;
        for (uint64_t i = 0; i < c.p[0]; ++i) acc = (acc + mulmod(x[4 * i + k], y[4 * i + k], QS[k])) % QS[k];
        if (r[k] % QS[k] != acc) return err("q120 vec_mat1col product: not congruent to sum x_i*y_i", (uint64_t)k);
      }
      return "";
    }
    case OP_Q120_BBC_REF:
    case OP_Q120_BBC_AVX2:
    case OP_Q120X2_1COL_REF:
    case OP_Q120X2_1COL_AVX2:
    case OP_Q120X2_2COLS_REF:
    case OP_Q120X2_2COLS_AVX2: {
      // x: b layout (lo/hi 32-bit halves of each lane), y: c layout (y mod q, y*2^32 mod q): x*y = x_lo*y0 + x_hi*y1
      const int xblk = c.op <= OP_Q120_BBC_AVX2 ? 1 : 2;                       // q120b per item in x
      const int yblk = c.op <= OP_Q120_BBC_AVX2 ? 1 : (c.op <= OP_Q120X2_1COL_AVX2 ? 2 : 4);  // q120c per item in y
      const int nres = yblk;
      const uint64_t* r = (const uint64_t*)ptr[0];
      const uint32_t* x = (const uint32_t*)ptr[1];
      const uint32_t* y = (const uint32_t*)ptr[2];
      for (int o = 0; o < nres; ++o) {
        const int xo = xblk == 1 ? 0 : (o & 1);
        for (int k = 0; k < 4; ++k) {
          uint64_t acc = 0;
          for (uint64_t i = 0; i < c.p[0]; ++i) {
            const uint32_t* xi = x + (i * xblk + xo) * 8;
            const uint32_t* yi = y + (i * yblk + o) * 8;
            uint64_t t = (mulmod(xi[2 * k], yi[2 * k], QS[k]) + mulmod(xi[2 * k + 1], yi[2 * k + 1], QS[k])) % QS[k];
            acc = (acc + t) % QS[k];
          }
          if (r[4 * o + k] % QS[k] != acc) return err("q120 bbc product: not congruent to sum x_i*y_i", (uint64_t)(4 * o + k));
        }
      }
      return "";
    }
    case OP_Q120X2_EXTRACT_B:
    case OP_Q120X2_EXTRACT_C:
      if (memcmp(ptr[0], ptr[1] + 64 * c.p[1], 64) != 0) return "q120x2 extract: block differs from the source";
      return "";
    case OP_Q120X2_EXTRACT_CONTIG:
      for (uint64_t row = 0; row < c.p[2]; ++row)
        if (memcmp(ptr[0] + 64 * row, ptr[1] + 32 * c.p[0] * row + 64 * c.p[1], 64) != 0) return err("q120x2 contiguous extract: block differs from the source row", row);
      return "";
    case OP_Q120X2_SAVE:
      if (memcmp(ptr[0] + 64 * c.p[1], ptr[1], 64) != 0) return "q120x2 save: block differs from the source";
      return "";
    default:
      return "";
  }
}
