// simrt.c -- simulator runtime: seeded scheduler over real threads, simulated heap, fault handlers.
// MUST be compiled without sanitizers / coverage (plain `cc -O2 -c`), see DESIGN §2.2-2.4.
#define _GNU_SOURCE
#include "simrt.h"

#include <errno.h>
#include <link.h>
#include <linux/futex.h>
#include <pthread.h>
#include <signal.h>
#include <stdio.h>
#include <stdlib.h>
#include <string.h>
#include <sys/mman.h>
#include <sys/syscall.h>
#include <ucontext.h>
#include <unistd.h>

#ifndef SIM_FLAVOUR
#error "compile with -DSIM_FLAVOUR=0|1|2"
#endif
const int sim_flavour = SIM_FLAVOUR;
static __thread int t_in_api_call;  // between sim_in_lib(op) and sim_in_lib(0) on this thread

#if SIM_FLAVOUR == SIM_PLAIN && __has_include(<valgrind/drd.h>)
#include <valgrind/drd.h>
#include <valgrind/valgrind.h>
#define SIM_HAVE_DRD 1
static int g_drd = -1;
int sim_drd_mode(void) {
  if (g_drd < 0) g_drd = RUNNING_ON_VALGRIND ? 1 : 0;
  return g_drd;
}
static __thread int t_drd_inlib;
static inline void drd_record(int on) {
  if (on) {
    ANNOTATE_IGNORE_READS_AND_WRITES_END();
  } else {
    ANNOTATE_IGNORE_READS_AND_WRITES_BEGIN();
  }
}
void sim_drd_thread_init(void) {
  if (sim_drd_mode()) {
    t_drd_inlib = 0;
    drd_record(0);
  }
}
unsigned sim_drd_error_count(void) { return sim_drd_mode() ? (unsigned)VALGRIND_COUNT_ERRORS : 0; }
#define DRD_HEAP_ENTER() do { if (g_drd > 0 && t_drd_inlib) drd_record(0); } while (0)
#define DRD_HEAP_LEAVE() do { if (g_drd > 0 && t_drd_inlib) drd_record(1); } while (0)
#else
int sim_drd_mode(void) { return 0; }
void sim_drd_thread_init(void) {}
unsigned sim_drd_error_count(void) { return 0; }
#define DRD_HEAP_ENTER() do { } while (0)
#define DRD_HEAP_LEAVE() do { } while (0)
#endif

#define PAGE 4096ull
#define CHUNK (1ull << 30)

// real allocator (the whole link uses --wrap for the malloc family)
void* __real_malloc(size_t);
void* __real_calloc(size_t, size_t);
void* __real_realloc(void*, size_t);
void __real_free(void*);
void* __real_aligned_alloc(size_t, size_t);
int __real_posix_memalign(void**, size_t, size_t);
void* __real_memalign(size_t, size_t);
size_t __real_malloc_usable_size(void*);

#if SIM_FLAVOUR == SIM_ASAN
void __asan_poison_memory_region(void const volatile* addr, size_t size);
void __asan_unpoison_memory_region(void const volatile* addr, size_t size);
#endif

static void die(const char* msg) {
  (void)!write(2, msg, strlen(msg));
  (void)!write(2, "\n", 1);
  _exit(70);
}

// ------------------------------------------------------------------------------------------------
// small PRNG (splitmix64)
static inline uint64_t sm64(uint64_t* s) {
  uint64_t z = (*s += 0x9E3779B97F4A7C15ull);
  z = (z ^ (z >> 30)) * 0xBF58476D1CE4E5B9ull;
  z = (z ^ (z >> 27)) * 0x94D049BB133111EBull;
  return z ^ (z >> 31);
}

// ------------------------------------------------------------------------------------------------
// heap
typedef struct {
  uint8_t* start;     // first usable byte
  uint64_t bytes;     // exact usable size
  uint8_t* map_base;  // first data page (page isolated) or real malloc base (asan)
  uint64_t map_len;   // data pages length (page isolated) / real allocation size (asan)
  uint64_t seq;       // library allocation sequence number (0 for harness blocks)
  int32_t owner;
  uint8_t live, is_lib, frozen, ro;
} blk_t;

#define MAXBLK (1u << 17)
static blk_t g_blk[MAXBLK];
static uint32_t g_nblk;
typedef struct {
  uint8_t* base;
  uint8_t* bump;
  uint8_t* end;
  uint32_t first_blk;
} chunk_t;
#define MAXCHUNK 64
static chunk_t g_chunk[MAXCHUNK];
static int g_nchunk;
static uint64_t g_lib_seq, g_lib_bytes;
static int g_lib_live;
static int g_lib_fill = SIM_FILL_A5;
static uint64_t g_lib_fill_seed = 1;
static uint64_t g_heap_seed;
static int g_heap_ready;
static int g_ncache;
// the heap is only ever entered by the one running task or by main while no task runs; a spin lock keeps
// the (rare) real concurrency during thread start-up/tear-down safe.
static volatile int g_heap_lock;
static inline void hlock(void) {
  while (__atomic_exchange_n(&g_heap_lock, 1, __ATOMIC_ACQUIRE)) {
  }
}
static inline void hunlock(void) { __atomic_store_n(&g_heap_lock, 0, __ATOMIC_RELEASE); }

void sim_heap_init(uint64_t seed) {
  g_heap_seed = seed;
  g_nblk = 0;
  g_nchunk = 0;
  g_lib_seq = 0;
  g_lib_bytes = 0;
  g_lib_live = 0;
  g_ncache = 0;
  g_heap_ready = 1;
}

void sim_fill(void* p, size_t bytes, int fill, uint64_t fill_seed) {
  uint8_t* b = (uint8_t*)p;
  switch (fill) {
    case SIM_FILL_ZERO:
      memset(b, 0, bytes);
      break;
    case SIM_FILL_FF:
      memset(b, 0xFF, bytes);
      break;
    case SIM_FILL_A5:
      memset(b, 0xA5, bytes);
      break;
    case SIM_FILL_QNAN:
    case SIM_FILL_SNAN: {
      const uint64_t v = fill == SIM_FILL_QNAN ? 0x7ff8000000000000ull : 0x7ff4000000000001ull;
      size_t i = 0;
      // keep the 8-byte phase tied to the address so doubles read back as NaN
      while (i < bytes && (((uintptr_t)(b + i)) & 7)) b[i++] = 0xF4;
      for (; i + 8 <= bytes; i += 8) memcpy(b + i, &v, 8);
      while (i < bytes) b[i++] = 0xF4;
      break;
    }
    default: {
      uint64_t s = fill_seed * 0x9E3779B97F4A7C15ull + 12345;
      size_t i = 0;
      for (; i + 8 <= bytes; i += 8) {
        uint64_t v = sm64(&s);
        memcpy(b + i, &v, 8);
      }
      if (i < bytes) {
        uint64_t v = sm64(&s);
        memcpy(b + i, &v, bytes - i);
      }
    }
  }
}

static uint8_t* chunk_take(uint64_t len, uint32_t blk_index) {
  if (g_nchunk == 0 || (uint64_t)(g_chunk[g_nchunk - 1].end - g_chunk[g_nchunk - 1].bump) < len + PAGE) {
    if (g_nchunk == MAXCHUNK) die("simrt: out of chunks");
    uint64_t clen = CHUNK;
    if (len + 2 * PAGE > clen) clen = (len + 2 * PAGE + PAGE - 1) & ~(PAGE - 1);
    void* m = mmap(NULL, clen, PROT_NONE, MAP_PRIVATE | MAP_ANONYMOUS | MAP_NORESERVE, -1, 0);
    if (m == MAP_FAILED) die("simrt: mmap failed");
    chunk_t* c = &g_chunk[g_nchunk++];
    c->base = (uint8_t*)m;
    c->bump = c->base + PAGE;  // leading guard page
    c->end = c->base + clen;
    c->first_blk = blk_index;
  }
  chunk_t* c = &g_chunk[g_nchunk - 1];
  uint8_t* r = c->bump;
  c->bump += len + PAGE;  // trailing guard page stays PROT_NONE
  return r;
}

static blk_t* new_block(size_t bytes, size_t align, int place, int off8, int is_lib, int owner) {
  if (!g_heap_ready) sim_heap_init(0);
  if (g_nblk == MAXBLK) die("simrt: out of block slots");
  blk_t* b = &g_blk[g_nblk];
  memset(b, 0, sizeof(*b));
  uint64_t need = bytes + 64;
  if (align > 64) need = bytes + align;
  uint64_t len = (need + PAGE - 1) & ~(PAGE - 1);
  if (len == 0) len = PAGE;
  uint8_t* base = chunk_take(len, g_nblk);
  if (mprotect(base, len, PROT_READ | PROT_WRITE)) die("simrt: mprotect rw failed");
  uint8_t* end = base + len;
  uint8_t* s;
  if (is_lib) {
    s = (uint8_t*)(((uintptr_t)(end - bytes)) & ~(uintptr_t)(align - 1));
    // malloc only promises 16-byte alignment: vary the phase modulo 64 (a block that is a multiple of 64 bytes long
    // would otherwise always start on a 64-byte line, which no real allocator guarantees)
    if (align <= 16) {
      uint64_t k = ((g_heap_seed ^ (g_lib_seq + 1) * 0x9E3779B97F4A7C15ull) >> 29) & 3;
      if (s - k * 16 >= base) s -= k * 16;
    }
  } else if (place == SIM_PLACE_FLUSH_LOW) {
    s = base;
  } else if (place == SIM_PLACE_OFFSET) {
    uint8_t* t = end - bytes;
    uint64_t want = (uint64_t)(off8 & 7) * 8;
    s = t - (((uintptr_t)t - want) & 63);
  } else {
    s = end - bytes;
  }
  if (s < base) die("simrt: placement underflow");
  b->start = s;
  b->map_base = base;
  b->map_len = len;
#if SIM_FLAVOUR == SIM_ASAN
  // byte-precise extents (8-byte granules): everything around the block is poisoned; addresses stay deterministic
  // because nothing comes from the sanitizer's own allocator
  if (s > base) __asan_poison_memory_region(base, (size_t)(s - base));
  {
    uint8_t* e8 = (uint8_t*)(((uintptr_t)(s + bytes) + 7) & ~(uintptr_t)7);
    if (end > e8) __asan_poison_memory_region(e8, (size_t)(end - e8));
  }
#endif
  b->bytes = bytes;
  b->live = 1;
  b->is_lib = (uint8_t)is_lib;
  b->owner = owner;
  if (is_lib) {
    b->seq = ++g_lib_seq;
    g_lib_bytes += bytes;
    g_lib_live++;
  }
  g_nblk++;
  return b;
}

static blk_t* find_block(const void* addr) {
  const uint8_t* a = (const uint8_t*)addr;
  for (int c = 0; c < g_nchunk; ++c) {
    chunk_t* ch = &g_chunk[c];
    if (a < ch->base || a >= ch->end) continue;
    uint32_t lo = ch->first_blk;
    uint32_t hi = (c + 1 < g_nchunk) ? g_chunk[c + 1].first_blk : g_nblk;
    // blocks of a chunk are in increasing address order; each owns [map_base - PAGE? .. map_base+map_len+PAGE)
    while (lo < hi) {
      uint32_t mid = (lo + hi) / 2;
      blk_t* b = &g_blk[mid];
      if (a < b->map_base - PAGE)
        hi = mid;
      else if (a >= b->map_base + b->map_len + PAGE)
        lo = mid + 1;
      else {
        // prefer the block whose data pages or trailing guard contain the address
        if (a < b->map_base && mid > ch->first_blk) {
          // inside the guard page shared with the previous block: attribute to the previous block (overflow)
          return &g_blk[mid - 1];
        }
        return b;
      }
    }
    return NULL;
  }
  return NULL;
}

void* sim_alloc(size_t bytes, int place, int off8, int fill, uint64_t fill_seed, int owner) {
  hlock();
  blk_t* b = new_block(bytes, 8, place, off8, 0, owner);
  hunlock();
  if (bytes) sim_fill(b->start, bytes, fill, fill_seed);
  return b->start;
}

// optional LIFO reuse of released library blocks of equal size (what a real allocator's per-size cache does): the same
// address comes back for the next object of that size. Off in the tsan flavour (TSan would pair accesses of two lifetimes).
#define MAXCACHE 48
static blk_t* g_cache[MAXCACHE];
static int g_reuse;
void sim_set_reuse(int on) {
#if SIM_FLAVOUR == SIM_TSAN
  (void)on;
  g_reuse = 0;
#else
  g_reuse = on && !sim_drd_mode();  // a race detector would pair the accesses of two lifetimes of one address
#endif
}
static void really_release(blk_t* b) {
#if SIM_FLAVOUR == SIM_ASAN
  __asan_poison_memory_region(b->map_base, b->map_len);
#endif
  mprotect(b->map_base, b->map_len, PROT_NONE);
  madvise(b->map_base, b->map_len, MADV_DONTNEED);
}
static void release_block(blk_t* b) {
  if (!b->live) die("simrt: double free of simulated block");
  b->live = 0;
  if (b->is_lib) g_lib_live--;
  if (g_reuse && b->is_lib && b->bytes > 0 && b->bytes <= (1u << 22)) {
#if SIM_FLAVOUR == SIM_ASAN
    __asan_poison_memory_region(b->map_base, b->map_len);
#endif
    if (g_ncache == MAXCACHE) {
      really_release(g_cache[0]);
      memmove(&g_cache[0], &g_cache[1], sizeof(g_cache[0]) * (MAXCACHE - 1));
      g_ncache--;
    }
    g_cache[g_ncache++] = b;
    return;
  }
  // never reused: stays PROT_NONE for the rest of the run (use-after-free faults)
#if SIM_FLAVOUR == SIM_ASAN
  __asan_poison_memory_region(b->map_base, b->map_len);
#endif
  mprotect(b->map_base, b->map_len, PROT_NONE);
  madvise(b->map_base, b->map_len, MADV_DONTNEED);
}

void sim_release(void* p) {
  if (!p) return;
  hlock();
  blk_t* b = find_block(p);
  if (!b || b->start != (uint8_t*)p) die("simrt: sim_release of unknown pointer");
  release_block(b);
  hunlock();
}

size_t sim_block_size(const void* p) {
  blk_t* b = find_block(p);
  return b ? b->bytes : 0;
}

static int set_prot(blk_t* b, int ro) {
#if SIM_FLAVOUR == SIM_ASAN
  (void)b;
  (void)ro;
  return 0;
#else
  if (!b->live) return -1;
  b->ro = (uint8_t)ro;
  return mprotect(b->map_base, b->map_len, ro ? PROT_READ : (PROT_READ | PROT_WRITE));
#endif
}

int sim_protect(const void* p, int readonly) {
  blk_t* b = find_block(p);
  if (!b) return -1;
  if (b->frozen) return 0;
  return set_prot(b, readonly);
}
int sim_freeze(const void* p) {
  blk_t* b = find_block(p);
  if (!b) return -1;
  b->frozen = 1;
  return set_prot(b, 1);
}
int sim_unfreeze(const void* p) {
  blk_t* b = find_block(p);
  if (!b) return -1;
  b->frozen = 0;
  return set_prot(b, 0);
}
void sim_poison(const void* p, size_t bytes) {
#if SIM_FLAVOUR == SIM_ASAN
  if (bytes) __asan_poison_memory_region(p, bytes);
#else
  (void)p;
  (void)bytes;
#endif
}
void sim_unpoison(const void* p, size_t bytes) {
#if SIM_FLAVOUR == SIM_ASAN
  if (bytes) __asan_unpoison_memory_region(p, bytes);
#else
  (void)p;
  (void)bytes;
#endif
}

void sim_set_lib_fill(int fill, uint64_t seed) {
  g_lib_fill = fill;
  g_lib_fill_seed = seed;
}
void sim_get_lib_fill(int* fill, uint64_t* seed) {
  *fill = g_lib_fill;
  *seed = g_lib_fill_seed;
}
uint64_t sim_lib_alloc_mark(void) { return g_lib_seq; }
uint64_t sim_lib_alloc_count(void) { return g_lib_seq; }
uint64_t sim_lib_alloc_bytes(void) { return g_lib_bytes; }
int sim_lib_live_total(void) { return g_lib_live; }
int sim_lib_live_since(uint64_t mark) {
  int n = 0;
  for (uint32_t i = 0; i < g_nblk; ++i)
    if (g_blk[i].is_lib && g_blk[i].live && g_blk[i].seq > mark) n++;
  return n;
}
int sim_lib_live_in_range(uint64_t lo, uint64_t hi) {
  int n = 0;
  for (uint32_t i = 0; i < g_nblk; ++i)
    if (g_blk[i].is_lib && g_blk[i].live && g_blk[i].seq > lo && g_blk[i].seq <= hi) n++;
  return n;
}
int sim_freeze_lib_blocks_since(uint64_t mark) {
  int n = 0;
  for (uint32_t i = 0; i < g_nblk; ++i)
    if (g_blk[i].is_lib && g_blk[i].live && g_blk[i].seq > mark) {
      g_blk[i].frozen = 1;
      set_prot(&g_blk[i], 1);
      n++;
    }
  return n;
}
int sim_unfreeze_lib_blocks_since(uint64_t mark) {
  int n = 0;
  for (uint32_t i = 0; i < g_nblk; ++i)
    if (g_blk[i].is_lib && g_blk[i].live && g_blk[i].seq > mark && g_blk[i].frozen) {
      g_blk[i].frozen = 0;
      set_prot(&g_blk[i], 0);
      n++;
    }
  return n;
}
int sim_describe(const void* addr, uint64_t* off, uint64_t* size, int* is_lib, int* owner) {
  blk_t* b = find_block(addr);
  if (!b) return -1;
  if (off) *off = (uint64_t)((const uint8_t*)addr - b->start);
  if (size) *size = b->bytes;
  if (is_lib) *is_lib = b->is_lib;
  if (owner) *owner = b->owner;
  return (int)(b - g_blk);
}

// ---- the malloc family as seen by the library (and by harness code that frees library objects)
static int in_sim_heap(const void* p) {
  const uint8_t* a = (const uint8_t*)p;
  for (int c = 0; c < g_nchunk; ++c)
    if (a >= g_chunk[c].base && a < g_chunk[c].end) return 1;
  return 0;
}
static blk_t* cache_take(size_t size, size_t align) {
  for (int i = g_ncache - 1; i >= 0; --i) {
    blk_t* b = g_cache[i];
    if (b->bytes == size && (((uintptr_t)b->start) & (align - 1)) == 0) {
      memmove(&g_cache[i], &g_cache[i + 1], sizeof(g_cache[0]) * (size_t)(g_ncache - 1 - i));
      g_ncache--;
      b->live = 1;
      b->seq = ++g_lib_seq;
      g_lib_bytes += size;
      g_lib_live++;
#if SIM_FLAVOUR == SIM_ASAN
      __asan_unpoison_memory_region(b->start, (size + 7) & ~(size_t)7);
#endif
      return b;
    }
  }
  return NULL;
}
static void* lib_alloc(size_t size, size_t align, int zero) {
  if (align < 16) align = 16;
  DRD_HEAP_ENTER();
  hlock();
  blk_t* b = g_reuse && size ? cache_take(size, align) : NULL;
  if (!b) b = new_block(size, align, 0, 0, 1, -1);
  hunlock();
  if (size) {
    if (zero)
      memset(b->start, 0, size);
    else
      sim_fill(b->start, size, g_lib_fill, g_lib_fill_seed + b->seq);
  }
  DRD_HEAP_LEAVE();
  return b->start;
}
void* __wrap_malloc(size_t size) { return lib_alloc(size, 16, 0); }
void* __wrap_calloc(size_t n, size_t sz) { return lib_alloc(n * sz, 16, 1); }
void* __wrap_aligned_alloc(size_t al, size_t size) { return lib_alloc(size, al, 0); }
void* __wrap_memalign(size_t al, size_t size) { return lib_alloc(size, al, 0); }
int __wrap_posix_memalign(void** out, size_t al, size_t size) {
  *out = lib_alloc(size, al, 0);
  return 0;
}
void __wrap_free(void* p) {
  if (!p) return;
  if (!in_sim_heap(p)) {
    __real_free(p);
    return;
  }
  DRD_HEAP_ENTER();
  hlock();
  blk_t* b = find_block(p);
  if (!b || b->start != (uint8_t*)p) die("simrt: free() of a pointer that is not the start of a simulated block");
  if (b->frozen) {
    if (t_in_api_call) {
      // an API call releases memory of an object that is immutable for its whole life (a module, a table, a prepared
      // operand that is still alive): reported like a write to it, through the fault handler
      hunlock();
      *(volatile uint8_t*)b->start = 0;
      hlock();
    }
    b->frozen = 0;
    set_prot(b, 0);
  }
  release_block(b);
  hunlock();
  DRD_HEAP_LEAVE();
}
size_t __wrap_malloc_usable_size(void* p) {
  if (!p) return 0;
  if (!in_sim_heap(p)) return __real_malloc_usable_size(p);
  blk_t* b = find_block(p);
  return b && b->start == (uint8_t*)p ? b->bytes : 0;
}
void* __wrap_realloc(void* p, size_t size) {
  if (p && !in_sim_heap(p)) return __real_realloc(p, size);
  void* n = lib_alloc(size, 16, 0);
  if (p) {
    blk_t* b = find_block(p);
    size_t c = b->bytes < size ? b->bytes : size;
    memcpy(n, p, c);
    __wrap_free(p);
  }
  return n;
}

// ------------------------------------------------------------------------------------------------
// scheduler
static char* put_str(char* p, const char* s);
static char* put_u64(char* p, uint64_t v);
static char* put_i64(char* p, int64_t v);
#define MAXT 32
enum { TS_UNUSED = 0, TS_READY = 1, TS_DONE = 3 };
typedef struct {
  int go;
  int state;
  int in_lib;
  int in_window;
  int armed;
  uint64_t prio;
  uint64_t local;  // yield points executed by this task
  uint64_t blocked_progress;
  uint32_t blocked_tries;
  char pad[64];
} task_t;
static task_t T[MAXT];
static int NT;
static volatile int g_active;
static int g_cur = -1;
static __thread int t_self = -1;
static sim_sched_cfg g_cfg;
static uint64_t g_rng;
static sim_sched_stats g_st;
static uint64_t g_progress;
static uint64_t consec;
static int consec_task = -1;
#define MAXDEC (1u << 16)
static uint64_t g_dec_step[MAXDEC];  // encoded: (task << 48) | local step of that task
static int g_dec_task[MAXDEC];
static uint32_t g_ndec;
static uint32_t g_replay_pos;
static uint64_t g_pct_points[8];
static int g_serial_pos;
static uint64_t g_image_base;

enum { K_EDGE = 1, K_SLOAD = 2, K_SSTORE = 3, K_HARNESS = 4, K_EXIT = 5, K_BLOCKED = 6, K_START = 7 };

static inline long futex(int* uaddr, int op, int val) { return syscall(SYS_futex, uaddr, op, val, NULL, NULL, 0); }

static void wait_go(int self) {
  while (!__atomic_load_n(&T[self].go, __ATOMIC_ACQUIRE)) futex(&T[self].go, FUTEX_WAIT_PRIVATE, 0);
  __atomic_store_n(&T[self].go, 0, __ATOMIC_RELAXED);
}
static void give_go(int next) {
  g_cur = next;
  __atomic_store_n(&T[next].go, 1, __ATOMIC_RELEASE);
  futex(&T[next].go, FUTEX_WAKE_PRIVATE, 1);
}

static inline void trace_mix(uint64_t a, uint64_t b) {
  g_st.trace_hash = (g_st.trace_hash ^ (a * 0x9E3779B97F4A7C15ull + b)) * 0x100000001B3ull;
}

static int g_dec_fd = -1;
void sim_set_decision_fd(int fd) { g_dec_fd = fd; }
static void stream_decision(int from, uint64_t local, int next) {
  char buf[96];
  char* p = buf;
  *p++ = 'D';
  *p++ = ' ';
  p = put_i64(p, from);
  *p++ = ' ';
  p = put_u64(p, local);
  *p++ = ' ';
  p = put_i64(p, next);
  *p++ = '\n';
  (void)!write(g_dec_fd, buf, (size_t)(p - buf));
}
static void record_decision(int from, int next) {
  if (g_dec_fd >= 0) stream_decision(from, from < 0 ? 0 : T[from].local, next);
  if (g_ndec < MAXDEC) {
    g_dec_step[g_ndec] = ((uint64_t)(from < 0 ? 0xFFFF : from) << 48) | (from < 0 ? 0 : (T[from].local & 0xFFFFFFFFFFFFull));
    g_dec_task[g_ndec] = next;
    g_ndec++;
  }
  g_st.sched_hash = (g_st.sched_hash ^ (((uint64_t)(from + 1) << 56) ^ ((uint64_t)(next + 1) << 48) ^ (from < 0 ? 0 : T[from].local))) *
                    0x100000001B3ull;
}

static int count_ready_except(int self) {
  int n = 0;
  for (int i = 0; i < NT; ++i)
    if (i != self && T[i].state == TS_READY) n++;
  return n;
}
static int pick_random_other(int self) {
  int n = count_ready_except(self);
  if (!n) return -1;
  int k = (int)(sm64(&g_rng) % (uint64_t)n);
  for (int i = 0; i < NT; ++i)
    if (i != self && T[i].state == TS_READY) {
      if (k-- == 0) return i;
    }
  return -1;
}
static int pick_highest_prio(int except) {
  int best = -1;
  for (int i = 0; i < NT; ++i)
    if (i != except && T[i].state == TS_READY && (best < 0 || T[i].prio > T[best].prio)) best = i;
  return best;
}
// fair choice for a task that cannot proceed: the next ready task after it, cyclically (so that the holder of the
// primitive it waits for is reached whatever the priorities are)
static int pick_round_robin(int self) {
  for (int k = 1; k <= NT; ++k) {
    int i = (self + k) % NT;
    if (i != self && T[i].state == TS_READY) return i;
  }
  return -1;
}
static int pick_lowest_index(int except) {
  for (int i = 0; i < NT; ++i)
    if (i != except && T[i].state == TS_READY) return i;
  return -1;
}

// replay: is there a recorded decision for (task self, its local count)? returns target or -1 (none) ; -2 = stay
static int replay_lookup(int self) {
  while (g_replay_pos < g_cfg.replay_n) {
    uint64_t e = g_cfg.replay_steps[g_replay_pos];
    int t = (int)(e >> 48);
    uint64_t l = e & 0xFFFFFFFFFFFFull;
    if (t == 0xFFFF) {  // start decision, consumed elsewhere
      g_replay_pos++;
      continue;
    }
    if (t == self && l < T[self].local) {  // stale (schedule was shrunk)
      g_replay_pos++;
      continue;
    }
    if (t == self && l == T[self].local) {
      int nx = g_cfg.replay_tasks[g_replay_pos++];
      if (nx >= 0 && nx < NT && nx != self && T[nx].state == TS_READY) return nx;
      return -2;
    }
    return -1;
  }
  return -1;
}

static void do_switch(int self, int next) {
  record_decision(self, next);
  g_st.switches++;
  int others_in_lib = 0;
  for (int i = 0; i < NT; ++i)
    if (T[i].state == TS_READY && T[i].in_lib) others_in_lib++;
  if (others_in_lib) g_st.switches_in_lib++;
  give_go(next);
  wait_go(self);
}

static void yield_point(int kind, uint64_t site, int window) {
  const int self = t_self;
  // a lazy-init window opens *after* the zero load has executed: the sancov callback of that load runs before the load
  // itself, so the switch that lets another task into the same window belongs to the next yield point of this task
  if (T[self].armed) {
    window = 1;
    T[self].armed = 0;
  }
  g_st.steps++;
  T[self].local++;
  trace_mix(((uint64_t)self << 8) | (uint64_t)kind, site);
  if (kind != K_BLOCKED) g_progress++;
  // starvation guard: a task that spins on a plain atomic (not a wrapped primitive) while the task it waits for is
  // parked would spin forever under a priority or serial schedule; after many consecutive yield points of one task the
  // next ready task gets a turn
  if (consec_task != self) {
    consec_task = self;
    consec = 0;
  }
  consec++;
  const int starving = consec > 20000 && g_cfg.policy != SIM_POL_SERIAL && count_ready_except(self) > 0;
  if (g_st.steps > g_cfg.max_steps || g_st.switches > g_cfg.max_switches) {
    g_st.budget_exceeded = 1;
    if (starving) {
      consec = 0;
      int nx = pick_round_robin(self);
      if (nx >= 0) do_switch(self, nx);
      return;
    }
    if (kind != K_BLOCKED) return;  // run on serially
  }
  if (starving && g_cfg.policy != SIM_POL_RANDOM) {
    consec = 0;
    if (g_cfg.policy == SIM_POL_PCT) T[self].prio = 0;
    int nx = pick_round_robin(self);
    if (nx >= 0) {
      do_switch(self, nx);
      return;
    }
  }
  int next = -1;
  switch (g_cfg.policy) {
    case SIM_POL_SERIAL:
      if (kind == K_BLOCKED) next = pick_round_robin(self);
      break;
    case SIM_POL_RANDOM: {
      uint64_t r = sm64(&g_rng);
      if (kind == K_BLOCKED)
        next = pick_random_other(self);
      else if (window && (r >> 32) % 100 < g_cfg.window_pct)
        next = pick_random_other(self);
      else if ((r & 0xFFFFFFFFu) % g_cfg.switch_den == 0)
        next = pick_random_other(self);
      break;
    }
    case SIM_POL_PCT: {
      for (uint32_t i = 0; i < g_cfg.pct_depth && i < 8; ++i)
        if (g_pct_points[i] == g_st.steps) T[self].prio = g_cfg.pct_depth - i;  // below all initial priorities
      if (window && (sm64(&g_rng) >> 32) % 100 < g_cfg.window_pct) T[self].prio = 0;
      if (kind == K_BLOCKED) {
        T[self].prio = 0;  // a waiting task must not starve the holder (priority inversion)
        next = pick_round_robin(self);
      } else {
        int best = pick_highest_prio(-1);
        if (best != self) next = best;
      }
      break;
    }
    case SIM_POL_REPLAY: {
      int r = replay_lookup(self);
      if (r >= 0) next = r;
      if (kind == K_BLOCKED && next < 0) next = pick_round_robin(self);
      break;
    }
  }
  if (next >= 0 && next != self) do_switch(self, next);
}

void sim_sched_begin(int ntasks, const sim_sched_cfg* cfg) {
  if (ntasks > MAXT) die("simrt: too many tasks");
  memset(T, 0, sizeof(T));
  memset(&g_st, 0, sizeof(g_st));
  g_st.trace_hash = 0xcbf29ce484222325ull;
  g_st.sched_hash = 0xcbf29ce484222325ull;
  NT = ntasks;
  g_cfg = *cfg;
  if (g_cfg.switch_den == 0) g_cfg.switch_den = 1;
  if (g_cfg.max_steps == 0) g_cfg.max_steps = 5000000;
  if (g_cfg.max_switches == 0) g_cfg.max_switches = ~0ull;
  g_rng = cfg->seed ^ 0x5bd1e995a1b2c3d4ull;
  g_ndec = 0;
  g_replay_pos = 0;
  g_serial_pos = 0;
  g_progress = 0;
  consec = 0;
  consec_task = -1;
  for (int i = 0; i < ntasks; ++i) T[i].state = TS_READY;
  if (cfg->policy == SIM_POL_PCT) {
    // random distinct priorities above pct_depth
    for (int i = 0; i < ntasks; ++i) T[i].prio = g_cfg.pct_depth + 1 + (uint64_t)i;
    for (int i = ntasks - 1; i > 0; --i) {
      int j = (int)(sm64(&g_rng) % (uint64_t)(i + 1));
      uint64_t t = T[i].prio;
      T[i].prio = T[j].prio;
      T[j].prio = t;
    }
    uint64_t span = g_cfg.pct_span ? g_cfg.pct_span : 1000;
    for (uint32_t i = 0; i < 8; ++i) g_pct_points[i] = 1 + sm64(&g_rng) % span;
  }
  g_cur = -1;
  if (g_dec_fd >= 0) (void)!write(g_dec_fd, "B\n", 2);
  __atomic_store_n(&g_active, 1, __ATOMIC_SEQ_CST);
}

void sim_task_enter(int id) {
  t_self = id;
  sim_drd_thread_init();
  wait_go(id);
}

static int choose_after_exit(int self) {
  switch (g_cfg.policy) {
    case SIM_POL_SERIAL:
      if (g_cfg.serial_order) {
        while (g_serial_pos < NT) {
          int c = g_cfg.serial_order[g_serial_pos++];
          if (c >= 0 && c < NT && c != self && T[c].state == TS_READY) return c;
        }
      }
      return pick_lowest_index(self);
    case SIM_POL_RANDOM:
      return pick_random_other(self);
    case SIM_POL_PCT:
      return pick_highest_prio(self);
    case SIM_POL_REPLAY: {
      if (self >= 0) {
        int r = replay_lookup(self);
        if (r >= 0) return r;
      } else {
        // start decision
        while (g_replay_pos < g_cfg.replay_n) {
          uint64_t e = g_cfg.replay_steps[g_replay_pos];
          if ((int)(e >> 48) != 0xFFFF) break;
          int nx = g_cfg.replay_tasks[g_replay_pos++];
          if (nx >= 0 && nx < NT && T[nx].state == TS_READY) return nx;
        }
      }
      // prefer the task the next recorded decision talks about
      if (g_replay_pos < g_cfg.replay_n) {
        int t = (int)(g_cfg.replay_steps[g_replay_pos] >> 48);
        if (t != 0xFFFF && t < NT && t != self && T[t].state == TS_READY) return t;
      }
      return pick_lowest_index(self);
    }
  }
  return pick_lowest_index(self);
}

void sim_task_exit(void) {
  const int self = t_self;
  g_st.steps++;
  T[self].local++;
  trace_mix(((uint64_t)self << 8) | K_EXIT, 0);
  T[self].state = TS_DONE;
  T[self].in_lib = 0;
  int next = choose_after_exit(self);
  t_self = -1;
  if (next >= 0) {
    record_decision(self, next);
    give_go(next);
  } else {
    g_cur = -1;
  }
}

void sim_sched_start(void) {
  int first = choose_after_exit(-1);
  if (first < 0) return;
  record_decision(-1, first);
  give_go(first);
}
void sim_sched_end(void) {
  __atomic_store_n(&g_active, 0, __ATOMIC_SEQ_CST);
  g_st.ndecisions = g_ndec;
}
uint64_t sim_harness_point(int kind, int op) {
  if (!g_active || t_self < 0) return 0;
  yield_point(K_HARNESS, ((uint64_t)kind << 32) | (uint32_t)op, 0);
  return g_st.steps;
}
void sim_in_lib(int op) {
  t_in_api_call = op != 0;
  if (t_self >= 0) T[t_self].in_lib = op;
#ifdef SIM_HAVE_DRD
  if (g_drd > 0) {
    t_drd_inlib = op != 0;
    drd_record(op != 0);
  }
#endif
}
void sim_sched_get_stats(sim_sched_stats* st) {
  g_st.ndecisions = g_ndec;
  *st = g_st;
}
uint32_t sim_sched_decisions(const uint64_t** steps, const int** tasks) {
  *steps = g_dec_step;
  *tasks = g_dec_task;
  return g_ndec;
}
int sim_current_task(void) { return t_self; }

// a wrapped blocking primitive could not be acquired: let somebody else run. returns 1 if deadlock was detected
static int blocked_yield(void) {
  const int self = t_self;
  if (T[self].blocked_tries == 0 || T[self].blocked_progress != g_progress) {
    T[self].blocked_progress = g_progress;
    T[self].blocked_tries = 0;
  }
  T[self].blocked_tries++;
  g_st.lock_waits++;
  if (T[self].blocked_tries > 4000 || count_ready_except(self) == 0) {
    g_st.deadlock = 1;
    const char m[] = "SIMRT-DEADLOCK\n";
    if (sim_fctx.result_fd > 0) (void)!write(sim_fctx.result_fd, m, sizeof(m) - 1);
    _exit(79);
  }
  yield_point(K_BLOCKED, 0, 0);
  return 0;
}

// ---- instrumentation callbacks (library code only is compiled with -fsanitize-coverage)
extern char __data_start, _end;
void __sanitizer_cov_trace_pc_guard_init(uint32_t* start, uint32_t* stop) {
  static uint32_t n;
  if (start == stop || *start) return;
  for (uint32_t* x = start; x < stop; x++) *x = ++n;
}
void __sanitizer_cov_trace_pc_guard(uint32_t* guard) {
  if (!g_active || t_self < 0) return;
  yield_point(K_EDGE, *guard, 0);
}
static inline void mem_point(const void* addr, int size, int is_store) {
  if (!g_active || t_self < 0) return;
  const char* a = (const char*)addr;
  if (a < &__data_start || a >= &_end) return;  // heap, stack, TLS, read-only data: not a scheduling point
  g_st.static_accesses++;
  int window = 0;
  if (!is_store && (size == 8 || size == 4)) {
    // a zero flag / pointer read from static data: the "if (!initialised)" window of lazily built state
    uint64_t v = 0;
    memcpy(&v, addr, (size_t)size);
    if (v == 0) {
      window = 1;
      g_st.window_hits++;
      int others = 0;
      for (int i = 0; i < NT; ++i)
        if (i != t_self && T[i].state == TS_READY && T[i].in_window) others++;
      if (others) g_st.window_overlap++;
      T[t_self].in_window = 1;
    } else {
      T[t_self].in_window = 0;
    }
  } else if (is_store) {
    T[t_self].in_window = 0;
  }
  uint64_t site = (uint64_t)__builtin_return_address(0) - g_image_base;
  yield_point(is_store ? K_SSTORE : K_SLOAD, site, 0);
  if (window) T[t_self].armed = 1;
}
void __sanitizer_cov_load1(uint8_t* a) { mem_point(a, 1, 0); }
void __sanitizer_cov_load2(uint16_t* a) { mem_point(a, 2, 0); }
void __sanitizer_cov_load4(uint32_t* a) { mem_point(a, 4, 0); }
void __sanitizer_cov_load8(uint64_t* a) { mem_point(a, 8, 0); }
void __sanitizer_cov_load16(void* a) { mem_point(a, 16, 0); }
void __sanitizer_cov_store1(uint8_t* a) { mem_point(a, 1, 1); }
void __sanitizer_cov_store2(uint16_t* a) { mem_point(a, 2, 1); }
void __sanitizer_cov_store4(uint32_t* a) { mem_point(a, 4, 1); }
void __sanitizer_cov_store8(uint64_t* a) { mem_point(a, 8, 1); }
void __sanitizer_cov_store16(void* a) { mem_point(a, 16, 1); }

#if SIM_FLAVOUR == SIM_TSAN
// ---- blocking primitives: a held lock becomes "yield and retry", so a correctly synchronised library neither
// deadlocks the serialised run nor is flagged (ThreadSanitizer still sees the real primitive through __real_*).
int __real_pthread_mutex_lock(pthread_mutex_t*);
int pthread_mutex_trylock(pthread_mutex_t*);
int __real_pthread_spin_lock(pthread_spinlock_t*);
int pthread_spin_trylock(pthread_spinlock_t*);
int __real_pthread_rwlock_rdlock(pthread_rwlock_t*);
int pthread_rwlock_tryrdlock(pthread_rwlock_t*);
int __real_pthread_rwlock_wrlock(pthread_rwlock_t*);
int pthread_rwlock_trywrlock(pthread_rwlock_t*);
int __real_pthread_once(pthread_once_t*, void (*)(void));

int __wrap_pthread_mutex_lock(pthread_mutex_t* m) {
  if (!g_active || t_self < 0) return __real_pthread_mutex_lock(m);
  for (;;) {
    int r = pthread_mutex_trylock(m);
    if (r != EBUSY) return r;
    blocked_yield();
  }
}
int __wrap_pthread_spin_lock(pthread_spinlock_t* m) {
  if (!g_active || t_self < 0) return __real_pthread_spin_lock(m);
  for (;;) {
    int r = pthread_spin_trylock(m);
    if (r != EBUSY) return r;
    blocked_yield();
  }
}
int __wrap_pthread_rwlock_rdlock(pthread_rwlock_t* m) {
  if (!g_active || t_self < 0) return __real_pthread_rwlock_rdlock(m);
  for (;;) {
    int r = pthread_rwlock_tryrdlock(m);
    if (r != EBUSY) return r;
    blocked_yield();
  }
}
int __wrap_pthread_rwlock_wrlock(pthread_rwlock_t* m) {
  if (!g_active || t_self < 0) return __real_pthread_rwlock_wrlock(m);
  for (;;) {
    int r = pthread_rwlock_trywrlock(m);
    if (r != EBUSY) return r;
    blocked_yield();
  }
}
// ---- C11 atomics: clang lowers them to __tsan_atomic* calls, which carry no coverage callback of their own and are often
// compiled without a basic-block edge between a load and the following read-modify-write. Every atomic operation is
// therefore a yield point *after* it has executed: the window of an almost-right lock-free protocol (load, decide, RMW)
// is reachable by the scheduler.
enum { K_ATOMIC = 8 };
static inline void atomic_point(void) {
  if (!g_active || t_self < 0) return;
  yield_point(K_ATOMIC, (uint64_t)__builtin_return_address(0) - g_image_base, 1);
}
#define SIM_ATOMIC_WRAP(BITS, T)                                                                                      \
  T __real___tsan_atomic##BITS##_load(const volatile T* a, int mo);                                                    \
  T __wrap___tsan_atomic##BITS##_load(const volatile T* a, int mo) {                                                   \
    T r = __real___tsan_atomic##BITS##_load(a, mo);                                                                    \
    atomic_point();                                                                                                    \
    return r;                                                                                                          \
  }                                                                                                                    \
  void __real___tsan_atomic##BITS##_store(volatile T* a, T v, int mo);                                                 \
  void __wrap___tsan_atomic##BITS##_store(volatile T* a, T v, int mo) {                                                \
    __real___tsan_atomic##BITS##_store(a, v, mo);                                                                      \
    atomic_point();                                                                                                    \
  }                                                                                                                    \
  SIM_ATOMIC_RMW(BITS, T, exchange)                                                                                    \
  SIM_ATOMIC_RMW(BITS, T, fetch_add)                                                                                   \
  SIM_ATOMIC_RMW(BITS, T, fetch_sub)                                                                                   \
  SIM_ATOMIC_RMW(BITS, T, fetch_and)                                                                                   \
  SIM_ATOMIC_RMW(BITS, T, fetch_or)                                                                                    \
  SIM_ATOMIC_RMW(BITS, T, fetch_xor)                                                                                   \
  SIM_ATOMIC_RMW(BITS, T, fetch_nand)                                                                                  \
  int __real___tsan_atomic##BITS##_compare_exchange_strong(volatile T* a, T* c, T v, int mo, int fmo);                 \
  int __wrap___tsan_atomic##BITS##_compare_exchange_strong(volatile T* a, T* c, T v, int mo, int fmo) {                \
    int r = __real___tsan_atomic##BITS##_compare_exchange_strong(a, c, v, mo, fmo);                                    \
    atomic_point();                                                                                                    \
    return r;                                                                                                          \
  }                                                                                                                    \
  int __real___tsan_atomic##BITS##_compare_exchange_weak(volatile T* a, T* c, T v, int mo, int fmo);                   \
  int __wrap___tsan_atomic##BITS##_compare_exchange_weak(volatile T* a, T* c, T v, int mo, int fmo) {                  \
    int r = __real___tsan_atomic##BITS##_compare_exchange_weak(a, c, v, mo, fmo);                                      \
    atomic_point();                                                                                                    \
    return r;                                                                                                          \
  }
#define SIM_ATOMIC_RMW(BITS, T, OP)                                  \
  T __real___tsan_atomic##BITS##_##OP(volatile T* a, T v, int mo);   \
  T __wrap___tsan_atomic##BITS##_##OP(volatile T* a, T v, int mo) {  \
    T r = __real___tsan_atomic##BITS##_##OP(a, v, mo);               \
    atomic_point();                                                  \
    return r;                                                        \
  }
SIM_ATOMIC_WRAP(8, uint8_t)
SIM_ATOMIC_WRAP(16, uint16_t)
SIM_ATOMIC_WRAP(32, uint32_t)
SIM_ATOMIC_WRAP(64, uint64_t)

// pthread_once: the first caller runs the initialiser through the real primitive; callers arriving while it is
// in progress yield until it completed, then go through the real primitive (which gives TSan the acquire edge)
#define MAXONCE 64
static struct {
  pthread_once_t* key;
  int state;  // 1 running, 2 done
} g_once[MAXONCE];
static int g_nonce;
int __wrap_pthread_once(pthread_once_t* o, void (*fn)(void)) {
  if (!g_active || t_self < 0) return __real_pthread_once(o, fn);
  int idx = -1;
  for (int i = 0; i < g_nonce; ++i)
    if (g_once[i].key == o) idx = i;
  if (idx < 0) {
    if (g_nonce == MAXONCE) die("simrt: too many pthread_once objects");
    idx = g_nonce++;
    g_once[idx].key = o;
    g_once[idx].state = 1;
    int r = __real_pthread_once(o, fn);
    g_once[idx].state = 2;
    return r;
  }
  while (g_once[idx].state == 1) blocked_yield();
  return __real_pthread_once(o, fn);
}
#endif

#if SIM_FLAVOUR == SIM_TSAN
// ---- ThreadSanitizer report hook. Lives in this uninstrumented file: an instrumented hook would race with itself
// (tasks are ordered only by the invisible hand-off) and re-enter the reporting machinery.
int __tsan_get_report_data(void* report, const char** description, int* count, int* stack_count, int* mop_count, int* loc_count, int* mutex_count,
                           int* thread_count, int* unique_tid_count, void** sleep_trace, unsigned long trace_size);
int __tsan_get_report_mop(void* report, unsigned long idx, int* tid, void** addr, int* size, int* write, int* atomic, void** trace, unsigned long trace_size);
static sim_tsan_report g_tsan_rep[SIM_MAX_TSAN_REPORTS];
static int g_tsan_nrep;
__attribute__((used, visibility("default"))) void __tsan_on_report(void* rep) {
  if (g_tsan_nrep >= SIM_MAX_TSAN_REPORTS) return;
  const char* d = 0;
  int count = 0, stack_count = 0, mop_count = 0, loc = 0, mu = 0, th = 0, ut = 0;
  void* sleep_trace[4];
  __tsan_get_report_data(rep, &d, &count, &stack_count, &mop_count, &loc, &mu, &th, &ut, sleep_trace, 4);
  sim_tsan_report* r = &g_tsan_rep[g_tsan_nrep];
  for (unsigned i = 0; i < sizeof(*r); ++i) ((volatile char*)r)[i] = 0;
  for (int i = 0; d && d[i] && i < (int)sizeof(r->desc) - 1; ++i) r->desc[i] = d[i];
  r->nmop = mop_count > 2 ? 2 : mop_count;
  for (int i = 0; i < r->nmop; ++i) {
    void* trace[8] = {0, 0, 0, 0, 0, 0, 0, 0};
    void* addr = 0;
    int atomic = 0;
    __tsan_get_report_mop(rep, (unsigned long)i, &r->mop[i].tid, &addr, &r->mop[i].size, &r->mop[i].write, &atomic, trace, 8);
    for (int k = 0; k < 4; ++k) r->mop[i].pc[k] = trace[k] ? (uint64_t)trace[k] - g_image_base : 0;
    r->mop[i].addr = (uint64_t)addr;
  }
  g_tsan_nrep++;
  // streamed at once (a run can be slowed to a crawl by the race it exhibits: every racy access costs a stack
  // reconstruction inside the sanitizer), and the run ends after a handful of reports
  {
    char buf[200];
    char* p = buf;
    p = put_str(p, "TSANREP pc0=");
    p = put_u64(p, r->mop[0].pc[0]);
    p = put_str(p, " pc1=");
    p = put_u64(p, r->mop[1].pc[0]);
    p = put_str(p, " w0=");
    p = put_u64(p, (uint64_t)r->mop[0].write);
    p = put_str(p, " w1=");
    p = put_u64(p, (uint64_t)r->mop[1].write);
    *p++ = '\n';
    if (sim_fctx.result_fd > 0) (void)!write(sim_fctx.result_fd, buf, (size_t)(p - buf));
    if (g_tsan_nrep >= 4) {
      const char m[] = "RACE-LIMIT\n";
      if (sim_fctx.result_fd > 0) (void)!write(sim_fctx.result_fd, m, sizeof(m) - 1);
      _exit(81);
    }
  }
}
int sim_tsan_reports(const sim_tsan_report** out) {
  *out = g_tsan_rep;
  return g_tsan_nrep;
}
#else
int sim_tsan_reports(const sim_tsan_report** out) {
  *out = 0;
  return 0;
}
#endif

// ------------------------------------------------------------------------------------------------
// fault handlers
sim_fault_ctx sim_fctx;
static uint64_t g_image_end;
static int phdr_cb(struct dl_phdr_info* info, size_t size, void* data) {
  (void)size;
  *(uint64_t*)data = info->dlpi_addr;
  for (int i = 0; i < info->dlpi_phnum; ++i)
    if (info->dlpi_phdr[i].p_type == PT_LOAD) {
      uint64_t e = info->dlpi_addr + info->dlpi_phdr[i].p_vaddr + info->dlpi_phdr[i].p_memsz;
      if (e > g_image_end) g_image_end = e;
    }
  return 1;  // first entry = main program
}
uint64_t sim_image_base(void) {
  if (!g_image_base) {
    uint64_t b = 0;
    dl_iterate_phdr(phdr_cb, &b);
    g_image_base = b ? b : 1;
  }
  return g_image_base == 1 ? 0 : g_image_base;
}

uint64_t sim_rel_pc(uint64_t pc) {
  sim_image_base();
  return pc >= g_image_base && pc < g_image_end ? pc - g_image_base : 0;
}

static char* put_str(char* p, const char* s) {
  while (*s) *p++ = *s++;
  return p;
}
static char* put_u64(char* p, uint64_t v) {
  char tmp[24];
  int n = 0;
  do {
    tmp[n++] = (char)('0' + v % 10);
    v /= 10;
  } while (v);
  while (n) *p++ = tmp[--n];
  return p;
}
static char* put_i64(char* p, int64_t v) {
  if (v < 0) {
    *p++ = '-';
    return put_u64(p, (uint64_t)(-v));
  }
  return put_u64(p, (uint64_t)v);
}

static void fault_handler(int sig, siginfo_t* si, void* uc_) {
  ucontext_t* uc = (ucontext_t*)uc_;
  char buf[512];
  char* p = buf;
  uint64_t pc = 0;
#ifdef __x86_64__
  pc = (uint64_t)uc->uc_mcontext.gregs[REG_RIP];
#endif
  int task = t_self;
  int slot = task >= 0 && task < 31 ? task : 31;
  p = put_str(p, "FAULT sig=");
  p = put_u64(p, (uint64_t)sig);
  p = put_str(p, " task=");
  p = put_i64(p, task);
  p = put_str(p, " call=");
  p = put_i64(p, sim_fctx.cur_call[slot]);
  p = put_str(p, " op=");
  p = put_i64(p, sim_fctx.cur_op[slot]);
  // image-relative; a pc outside the main image (libc memcpy, ...) is load-address dependent and reported as 0
  p = put_str(p, " pc=");
  p = put_u64(p, pc >= g_image_base && pc < g_image_end ? pc - g_image_base : 0);
  if (sig == SIGSEGV || sig == SIGBUS) {
#ifdef __x86_64__
    p = put_str(p, " write=");
    p = put_u64(p, (uint64_t)((uc->uc_mcontext.gregs[REG_ERR] >> 1) & 1));
#endif
    uint64_t off = 0, size = 0;
    int is_lib = 0, owner = 0;
    int b = sim_describe(si->si_addr, &off, &size, &is_lib, &owner);
    p = put_str(p, " block=");
    p = put_i64(p, b);
    if (b >= 0) {
      p = put_str(p, " off=");
      p = put_i64(p, (int64_t)off);
      p = put_str(p, " size=");
      p = put_u64(p, size);
      p = put_str(p, " islib=");
      p = put_u64(p, (uint64_t)is_lib);
      p = put_str(p, " owner=");
      p = put_i64(p, owner);
      p = put_str(p, " frozen=");
      p = put_u64(p, g_blk[b].frozen);
      p = put_str(p, " ro=");
      p = put_u64(p, g_blk[b].ro);
      p = put_str(p, " live=");
      p = put_u64(p, g_blk[b].live);
    }
  }
  *p++ = '\n';
  if (sim_fctx.result_fd > 0) (void)!write(sim_fctx.result_fd, buf, (size_t)(p - buf));
  (void)!write(2, buf, (size_t)(p - buf));
  _exit(78);
}

// wall-clock budget exhausted: leave what ThreadSanitizer already found before dying (a run slowed down to a crawl by
// the very race it exhibits would otherwise only be seen as a hang)
static void alarm_handler(int sig) {
  (void)sig;
  const char m[] = "TIMEOUT\n";
  if (sim_fctx.result_fd > 0) (void)!write(sim_fctx.result_fd, m, sizeof(m) - 1);
  _exit(80);
}

void sim_install_fault_handlers(void) {
  sim_image_base();
  static char altstack[1 << 16];
  stack_t ss;
  ss.ss_sp = altstack;
  ss.ss_size = sizeof(altstack);
  ss.ss_flags = 0;
  sigaltstack(&ss, NULL);
  struct sigaction sa;
  memset(&sa, 0, sizeof(sa));
  sa.sa_sigaction = fault_handler;
  sa.sa_flags = SA_SIGINFO | SA_ONSTACK | SA_NODEFER;
  sigemptyset(&sa.sa_mask);
#if SIM_FLAVOUR != SIM_ASAN
  sigaction(SIGSEGV, &sa, NULL);
  sigaction(SIGBUS, &sa, NULL);
#endif
  {
    struct sigaction al;
    memset(&al, 0, sizeof(al));
    al.sa_handler = alarm_handler;
    sigemptyset(&al.sa_mask);
    sigaction(SIGALRM, &al, NULL);
  }
  sigaction(SIGILL, &sa, NULL);
  sigaction(SIGFPE, &sa, NULL);
  sigaction(SIGABRT, &sa, NULL);
}
