// simrt: the simulator runtime (scheduler, simulated heap, fault handlers).
// Compiled WITHOUT any sanitizer or coverage instrumentation (see DESIGN §2.2/§2.3): what
// happens in here is invisible to ThreadSanitizer on purpose.
#ifndef SIMRT_H
#define SIMRT_H
#include <stddef.h>
#include <stdint.h>
#ifdef __cplusplus
extern "C" {
#endif

// ------------------------------------------------------------------ flavour
// 0 = plain (gcc, page-isolated heap), 1 = tsan (page-isolated heap + scheduler), 2 = asan (real
// allocator with redzones, manual poisoning)
#define SIM_PLAIN 0
#define SIM_TSAN 1
#define SIM_ASAN 2
extern const int sim_flavour;  // defined by the world (per build)
// plain flavour started under `valgrind --tool=drd`: the operand-memory race detector for what ThreadSanitizer does not
// instrument (32-byte vector accesses, the assembly kernels). Only accesses made inside library calls are recorded.
int sim_drd_mode(void);
void sim_drd_thread_init(void);  // every new thread: ignore accesses until the first library call
unsigned sim_drd_error_count(void);

// ------------------------------------------------------------------ heap
enum { SIM_FILL_ZERO = 0, SIM_FILL_FF = 1, SIM_FILL_QNAN = 2, SIM_FILL_SNAN = 3, SIM_FILL_RANDOM = 4, SIM_FILL_A5 = 5, SIM_FILL_NKINDS = 6 };
enum { SIM_PLACE_FLUSH_HIGH = 0, SIM_PLACE_OFFSET = 1, SIM_PLACE_FLUSH_LOW = 2 };

void sim_heap_init(uint64_t seed);
/** harness buffer of exactly `bytes` bytes. place: SIM_PLACE_*; off8: offset (multiple of 8, 0..56) from a 64-byte
 *  line when place==OFFSET; fill: pattern applied to the whole block; owner: tag for accounting */
void* sim_alloc(size_t bytes, int place, int off8, int fill, uint64_t fill_seed, int owner);
void sim_release(void* p);
void sim_fill(void* p, size_t bytes, int fill, uint64_t fill_seed);
/** make the block containing p read-only / writable again (no-op in the asan flavour, returns 0 there) */
int sim_protect(const void* p, int readonly);
/** permanently freeze: like protect, but also marks the block as a shared immutable object */
int sim_freeze(const void* p);
int sim_unfreeze(const void* p);
/** poison/unpoison helpers (asan flavour only; no-ops elsewhere) */
void sim_poison(const void* p, size_t bytes);
void sim_unpoison(const void* p, size_t bytes);

/** fill pattern used for blocks the library itself allocates (malloc family); calloc stays zero */
void sim_set_lib_fill(int fill, uint64_t seed);
void sim_get_lib_fill(int* fill, uint64_t* seed);
/** LIFO reuse of released library blocks of equal size (ignored in the tsan flavour) */
void sim_set_reuse(int on);
/** library allocation accounting: ids are monotonically increasing per library allocation */
uint64_t sim_lib_alloc_mark(void);                 // current allocation counter
int sim_lib_live_since(uint64_t mark);             // number of library blocks allocated after mark and still live
int sim_lib_live_total(void);
int sim_lib_live_in_range(uint64_t lo, uint64_t hi);  // live library blocks with lo < seq <= hi
uint64_t sim_lib_alloc_count(void);
uint64_t sim_lib_alloc_bytes(void);
/** freeze every live library-allocated block allocated after mark (modules, tables) */
int sim_freeze_lib_blocks_since(uint64_t mark);
int sim_unfreeze_lib_blocks_since(uint64_t mark);
/** describe an address: returns block id or -1; fills offset, size, is_lib */
int sim_describe(const void* addr, uint64_t* off, uint64_t* size, int* is_lib, int* owner);
/** last byte-exact usable size of a harness/lib block */
size_t sim_block_size(const void* p);

// ------------------------------------------------------------------ scheduler
enum { SIM_POL_SERIAL = 0, SIM_POL_RANDOM = 1, SIM_POL_PCT = 2, SIM_POL_REPLAY = 3 };
typedef struct {
  int policy;
  uint64_t seed;
  uint32_t switch_den;     // random walk: switch with probability 1/switch_den at each yield point
  uint32_t window_pct;     // probability (percent) of switching away when a lazy-init window is observed
  uint32_t pct_depth;      // PCT: number of priority change points
  uint64_t pct_span;       // PCT: change points drawn in [0,pct_span)
  uint64_t max_steps;      // budget of yield points; exceeding it ends the run with status "budget"
  uint64_t max_switches;   // budget of context switches (each costs a futex hand-off); then the run finishes serially
  const uint64_t* replay_steps;  // replay policy: at step replay_steps[i] switch to replay_tasks[i]
  const int* replay_tasks;
  uint32_t replay_n;
  const int* serial_order;  // serial policy: order in which tasks run (ntasks entries) or NULL
} sim_sched_cfg;

void sim_sched_begin(int ntasks, const sim_sched_cfg* cfg);
/** called by a task thread as its first action; returns when it is this task's turn */
void sim_task_enter(int id);
/** called by a task thread as its last action */
void sim_task_exit(void);
/** called by the main thread after all task threads were created; releases the first task. returns when all done? no:
 *  returns immediately; main then joins the threads */
void sim_sched_start(void);
void sim_sched_end(void);
/** harness-level yield point (API call invoke/return); also stamps and returns the global event sequence number */
uint64_t sim_harness_point(int kind, int op);
/** mark the calling task as inside / outside a library call */
void sim_in_lib(int op);

typedef struct {
  uint64_t steps;            // yield points executed
  uint64_t switches;         // context switches
  uint64_t switches_in_lib;  // switches while at least one other task was inside a library call
  uint64_t window_hits;      // lazy-init windows observed (zero pointer-sized load from library static data)
  uint64_t window_overlap;   // times two tasks were inside a window at once
  uint64_t static_accesses;  // loads/stores of library static data seen in tasks
  uint64_t trace_hash;       // hash over (step,task,kind,site) of all yield points
  uint64_t sched_hash;       // hash over the decisions only
  uint64_t lock_waits;       // times a wrapped primitive made a task yield
  int budget_exceeded;
  int deadlock;
  uint32_t ndecisions;
} sim_sched_stats;
void sim_sched_get_stats(sim_sched_stats* st);
/** decisions taken in this run (for the replay file) */
uint32_t sim_sched_decisions(const uint64_t** steps, const int** tasks);
int sim_current_task(void);
/** every decision is also streamed to this fd as it is taken ("B" = a new scheduling phase begins, "D from local next"),
 *  so that a run ending in a fault still leaves its explicit schedule behind */
void sim_set_decision_fd(int fd);

// ------------------------------------------------------------------ ThreadSanitizer reports (tsan flavour)
#define SIM_MAX_TSAN_REPORTS 64
typedef struct {
  int tid, size, write;
  uint64_t pc[4];  // image-relative
  uint64_t addr;
} sim_tsan_mop;
typedef struct {
  char desc[48];
  int nmop;
  sim_tsan_mop mop[2];
} sim_tsan_report;
int sim_tsan_reports(const sim_tsan_report** out);

// ------------------------------------------------------------------ faults -> result channel
/** context the signal handler needs; the harness keeps it current */
typedef struct {
  int result_fd;
  uint64_t run_seed;
  volatile int cur_call[32];   // per task (index 0 = main/no task at slot 31)
  volatile int cur_op[32];
} sim_fault_ctx;
extern sim_fault_ctx sim_fctx;
void sim_install_fault_handlers(void);
uint64_t sim_image_base(void);
/** image-relative pc, or 0 if the address is outside the main image */
uint64_t sim_rel_pc(uint64_t pc);

#ifdef __cplusplus
}
#endif
#endif
