// world.cpp -- one process = one world = one exactly repeatable execution (DESIGN §2.1). The binary is a zygote: it
// forks one child per run seed before any library call and before any thread exists.
#include "world.h"

#include "spqlios/q120/q120_common.h"

#include <fcntl.h>
#include <pthread.h>
#include <signal.h>
#include <sys/time.h>
#include <sys/wait.h>
#include <unistd.h>

#include <algorithm>
#include <cmath>
#include <fstream>
#include <sstream>

#ifndef SIM_FLAVOUR
#error "compile with -DSIM_FLAVOUR"
#endif

// ---------------------------------------------------------------------------------------------- sanitizer glue
static bool g_verbose = false;
#if SIM_FLAVOUR == SIM_TSAN
extern "C" {
__attribute__((used, visibility("default"))) const char* __tsan_default_options() {
  return "die_after_fork=0:exitcode=0:halt_on_error=0:report_signal_unsafe=0:history_size=2:detect_deadlocks=0:report_thread_leaks=0:"
         "symbolize=0:print_summary=0";
}
}
#endif
#if SIM_FLAVOUR == SIM_ASAN
extern "C" {
const char* __asan_get_report_description();
void* __asan_get_report_pc();
void* __asan_get_report_address();
int __asan_get_report_access_type();
size_t __asan_get_report_access_size();
__attribute__((used, visibility("default"))) const char* __asan_default_options() {
  return "exitcode=77:detect_leaks=0:abort_on_error=0:symbolize=0:print_summary=0:detect_stack_use_after_return=0:allocator_may_return_null=1:"
         "malloc_context_size=2:handle_abort=0";
}
__attribute__((used, visibility("default"))) void __asan_on_error() {
  char buf[400];
  int task = sim_current_task();
  int slot = task >= 0 && task < 31 ? task : 31;
  uint64_t off = 0, size = 0;
  int is_lib = 0, owner = 0;
  int b = sim_describe(__asan_get_report_address(), &off, &size, &is_lib, &owner);
  int n = snprintf(buf, sizeof buf, "ASAN desc=%s call=%d op=%d pc=%llu write=%d asize=%zu block=%d off=%lld size=%llu islib=%d owner=%d\n",
                   __asan_get_report_description(), sim_fctx.cur_call[slot], sim_fctx.cur_op[slot],
                   (unsigned long long)sim_rel_pc((uint64_t)__asan_get_report_pc()), __asan_get_report_access_type(),
                   __asan_get_report_access_size(), b, (long long)off, (unsigned long long)size, is_lib, owner);
  if (sim_fctx.result_fd > 0 && n > 0) (void)!write(sim_fctx.result_fd, buf, (size_t)n);
}
}
#endif

// ---------------------------------------------------------------------------------------------- run specification
struct RunSpec {
  std::string world;
  int variant = 0;       // c16: 0 fault-free, 1 fault-injecting
  uint64_t run_seed = 0;
  bool thorough = false;
  int maskA = MASK_ALL, maskB = MASK_NONE;
  bool warm = false;     // c12 start state
  uint64_t mem_salt = 0;
  Program P;
  // schedule (c12)
  int policy = SIM_POL_RANDOM;
  uint32_t switch_den = 16, window_pct = 80, pct_depth = 2;
  uint64_t pct_span = 2000, sched_seed = 0;
  std::vector<uint64_t> dsteps;
  std::vector<int> dtasks;
  bool serial_only = false;  // c12: pristine serial reference run
  bool force_calm = false;   // confirmation runs: aligned, zero-filled memory
  bool reuse = false;        // released library blocks of equal size are handed out again (LIFO), as real allocators do
};

static const char* pol_names[] = {"serial", "random", "pct", "replay"};

static Json spec_to_json(const RunSpec& s, const std::vector<uint64_t>* dsteps, const std::vector<int>* dtasks) {
  Json j = Json::obj();
  j.set("world", Json::str(s.world)).set("variant", Json::inum(s.variant)).set("run_seed", Json::num(s.run_seed)).set("thorough", Json::inum(s.thorough));
  j.set("maskA", Json::str(mask_names[s.maskA])).set("maskB", Json::str(mask_names[s.maskB])).set("warm", Json::inum(s.warm)).set("mem_salt", Json::num(s.mem_salt));
  j.set("flavour", Json::str(SIM_FLAVOUR == SIM_TSAN ? "tsan" : SIM_FLAVOUR == SIM_ASAN ? "asan" : sim_drd_mode() ? "drd" : "plain"));
  Json sc = Json::obj();
  // a replay file always carries the explicit decisions, never the PRNG-driven policy
  bool have = dsteps && dtasks;
  sc.set("policy", Json::str(have ? "replay" : pol_names[s.policy])).set("orig_policy", Json::str(pol_names[s.policy]));
  sc.set("switch_den", Json::num(s.switch_den)).set("window_pct", Json::num(s.window_pct)).set("pct_depth", Json::num(s.pct_depth)).set("pct_span", Json::num(s.pct_span)).set("seed", Json::num(s.sched_seed));
  Json dec = Json::arr();
  const std::vector<uint64_t>& st = have ? *dsteps : s.dsteps;
  const std::vector<int>& tk = have ? *dtasks : s.dtasks;
  for (size_t i = 0; i < st.size(); ++i) {
    int from = (int)(st[i] >> 48);
    Json d = Json::arr();
    d.push(Json::inum(from == 0xFFFF ? -1 : from)).push(Json::num(st[i] & 0xFFFFFFFFFFFFull)).push(Json::inum(tk[i]));
    dec.push(d);
  }
  sc.set("decisions", dec);
  j.set("sched", sc);
  j.set("serial_only", Json::inum(s.serial_only)).set("reuse", Json::inum(s.reuse));
  j.set("program", s.P.to_json());
  return j;
}

static int mask_by_name(const std::string& n) {
  for (int i = 0; i < MASK_N; ++i)
    if (n == mask_names[i]) return i;
  return MASK_ALL;
}

static bool spec_from_json(const Json& j, RunSpec& s, std::string& err) {
  s.world = j.str_("world");
  s.variant = (int)j.i("variant");
  s.run_seed = j.u("run_seed");
  s.thorough = j.i("thorough") != 0;
  s.maskA = mask_by_name(j.str_("maskA"));
  s.maskB = mask_by_name(j.str_("maskB"));
  s.warm = j.i("warm") != 0;
  s.mem_salt = j.u("mem_salt");
  s.serial_only = j.i("serial_only") != 0;
  s.reuse = j.i("reuse") != 0;
  const Json* sc = j.get("sched");
  if (sc) {
    std::string pn = sc->str_("policy");
    s.policy = SIM_POL_REPLAY;
    for (int i = 0; i < 4; ++i)
      if (pn == pol_names[i]) s.policy = i;
    s.switch_den = (uint32_t)sc->u("switch_den", 16);
    s.window_pct = (uint32_t)sc->u("window_pct", 80);
    s.pct_depth = (uint32_t)sc->u("pct_depth", 2);
    s.pct_span = sc->u("pct_span", 2000);
    s.sched_seed = sc->u("seed");
    const Json* dec = sc->get("decisions");
    if (dec)
      for (auto& d : dec->a) {
        if (d.a.size() != 3) continue;
        int64_t from = d.a[0].asi();
        uint64_t local = d.a[1].asu();
        s.dsteps.push_back(((uint64_t)(from < 0 ? 0xFFFF : from) << 48) | (local & 0xFFFFFFFFFFFFull));
        s.dtasks.push_back((int)d.a[2].asi());
      }
  }
  const Json* p = j.get("program");
  if (!p) {
    err = "no program";
    return false;
  }
  return s.P.from_json(*p, err);
}

static RunSpec derive_spec(const std::string& world, int variant, uint64_t run_seed, bool thorough) {
  RunSpec s;
  s.world = world;
  s.variant = variant;
  s.run_seed = run_seed;
  s.thorough = thorough;
  Rng rc(run_seed, 1);  // configuration stream
  s.mem_salt = rc.next();
  s.sched_seed = rc.next();
  s.reuse = (s.mem_salt >> 11) & 1;
  GenCfg g;
  g.thorough = thorough;
  g.max_log2n = 6;
  g.max_big_log2n = thorough ? 16 : 14;
  g.big_n_pct = thorough ? 6 : 3;
  static const int masks[] = {MASK_ALL, MASK_ALL, MASK_NONE, MASK_FMA, MASK_AVX2};
  if (world == "c16") {
    s.maskA = variant == 0 ? MASK_ALL : masks[rc.below(5)];
    g.adjacent_slots = variant == 1;
    g.q120 = true;  // ride-along: q120 entry points against lane-wise congruences (sim/q120ref.cpp)
    g.edge_products = true;
    g.life_ops = true;
    g.module_ops = true;
    g.zero_sizes = true;
    g.min_calls = 6;
    g.max_calls = 40;
  } else if (world == "c18") {
    s.maskA = masks[rc.below(5)];
    g.adjacent_slots = true;
    g.module_ops = true;
    g.table_ops = true;
    g.q120 = true;
    g.edge_products = true;
    g.life_ops = true;
    g.zero_sizes = true;
    g.min_calls = 6;
    g.max_calls = 30;
  } else if (world == "c07") {
    static const int pa[] = {MASK_ALL, MASK_ALL, MASK_ALL, MASK_NONE};
    static const int pb[] = {MASK_NONE, MASK_FMA, MASK_AVX2, MASK_FMA};
    int k = (int)rc.below(4);
    s.maskA = pa[k];
    s.maskB = pb[k];
    g.module_ops = true;
    g.table_ops = true;
    g.kernel_pairs = true;
    g.edge_products = true;
    g.tiny_values = true;
    g.zero_sizes = true;
    g.min_calls = 6;
    g.max_calls = 30;
    g.max_log2n = 7;
  } else if (world == "c11") {
    s.maskA = masks[rc.below(5)];
    g.adjacent_slots = true;
    g.module_ops = true;
    g.table_ops = true;
    g.simple_ops = true;
    g.q120 = true;
    g.life_ops = true;
    g.lib_alloc_slots = true;
    g.allow_ties = true;
    g.tiny_values = true;
    g.zero_sizes = true;
    g.min_calls = 8;
    g.max_calls = 28;
    g.max_log2n = 8;
  } else if (world == "c15") {
    s.maskA = masks[rc.below(5)];
    g.module_ops = true;
    g.table_ops = true;
    g.simple_ops = true;
    g.repeats = true;
    g.small_pools = true;
    g.history_mode = true;
    g.q120 = true;
    g.allow_ties = true;
    g.tiny_values = true;
    g.zero_sizes = true;
    g.ntasks = 1 + (int)rc.below(4);
    g.min_calls = 50;
    g.max_calls = thorough ? 400 : 160;
    g.max_log2n = thorough ? 10 : 7;
    g.big_n_pct = 2;
    g.max_big_log2n = 14;
  } else if (world == "c12") {
    s.maskA = masks[rc.below(5)];
    g.module_ops = true;
    g.table_ops = true;
    g.simple_ops = true;
    g.q120 = true;
    g.life_ops = true;
    g.lib_alloc_slots = true;
    g.shared_setup = true;
    g.zero_sizes = false;
    g.ntasks = 2 + (int)rc.below(rc.chance(1, 4) ? 15 : 4);
    g.min_calls = 1;
    g.max_calls = 6;
    g.max_log2n = 6;
    g.big_n_pct = thorough ? 4 : 2;
    g.max_big_log2n = 14;
    s.warm = rc.chance(1, 2);
    uint64_t pk = rc.below(100);
    if (pk < 55) {
      s.policy = SIM_POL_RANDOM;
      static const uint32_t dens[] = {1, 4, 16, 64, 256};
      s.switch_den = dens[rc.below(5)];
    } else if (pk < 90) {
      s.policy = SIM_POL_PCT;
      s.pct_depth = 1 + (uint32_t)rc.below(3);
      static const uint64_t spans[] = {50, 300, 2000, 20000, 200000};
      s.pct_span = spans[rc.below(5)];
    } else {
      s.policy = SIM_POL_SERIAL;
    }
    g.column_groups = rc.chance(40, 100);
    static const uint32_t wp[] = {50, 70, 85, 95};
    s.window_pct = wp[rc.below(4)];
    if (rc.chance(3, 100)) {
      // *_simple storm: a few tasks call one convenience function over a dozen dimensions, after the documented warm-up
      g.simple_storm = true;
      g.module_ops = g.table_ops = g.q120 = g.life_ops = false;
      g.simple_ops = true;
      g.ntasks = 3 + (int)rc.below(4);
      g.min_calls = 6;
      g.max_calls = 10;
    } else if (rc.chance(thorough ? 5 : 3, 100)) {
      // large-dimension world: thresholds such as N >= 4096 / 8192 are only crossed here
      g.large_world = true;
      g.ntasks = 2 + (int)rc.below(3);
      g.min_calls = 1;
      g.max_calls = 3;
      g.table_ops = g.simple_ops = g.q120 = false;
    }
    if (variant == 0 && !g.simple_storm && !g.large_world && rc.chance(3, 100)) {
      // cold world: nothing of the library has run in this process when the tasks start; every task creates, uses and
      // deletes its own objects (the first CPU-feature probe, the first table constructions happen concurrently)
      g.module_ops = g.table_ops = g.simple_ops = g.q120 = false;
      g.life_ops = true;
      g.column_groups = false;
      g.ntasks = 2 + (int)rc.below(4);
      g.min_calls = 1;
      g.max_calls = 3;
      s.warm = 0;
    }
    if (variant == 1) {
      // column-split world: threads produce byte-adjacent columns of one block with the vector-output entry points
      g.column_groups = g.column_world = true;
      g.simple_storm = g.large_world = false;
      g.module_ops = true;
      g.table_ops = g.simple_ops = g.q120 = g.life_ops = false;
      g.ntasks = 2 + (int)rc.below(5);
      g.min_calls = 1;
      g.max_calls = 4;
      g.big_n_pct = 0;
    }
  }
  g.ntt120 = (s.maskA == MASK_ALL || s.maskA == MASK_AVX2) && (world != "c07" || ((s.maskB == MASK_ALL || s.maskB == MASK_AVX2)));
  Rng rp(run_seed, 2);
  s.P = generate_program(rp.next(), g);
  return s;
}

// ---------------------------------------------------------------------------------------------- results
struct RunResult {
  std::string status = "ok";  // ok | violation | invalid | budget
  std::vector<Violation> viol;
  Json stats = Json::obj();
  uint64_t log_hash = 0xcbf29ce484222325ull;
  std::vector<uint64_t> task_hash_conc, task_hash_serial;
  void mix(uint64_t v) { log_hash = (log_hash ^ v) * 0x100000001B3ull; }
};

static void fold_exec(RunResult& R, Exec& e, const char* tag) {
  for (auto& v : e.viol) {
    if (v.kind == "invalid-program") {
      if (R.status == "ok") R.status = "invalid";
      Violation w = v;
      R.viol.push_back(w);
      continue;
    }
    Violation w = v;
    w.detail = std::string("[") + tag + "] " + w.detail;
    R.viol.push_back(w);
    R.status = "violation";
  }
  for (size_t i = 0; i < e.out_hash.size(); ++i)
    for (uint64_t h : e.out_hash[i]) R.mix(h + i);
}
static uint64_t exec_trace_hash(const Exec& e, int task) {
  uint64_t h = 0xcbf29ce484222325ull;
  for (size_t i = 0; i < e.out_hash.size(); ++i)
    if (e.P.calls[i].task == task)
      for (uint64_t x : e.out_hash[i]) h = (h ^ (x + i)) * 0x100000001B3ull;
  return h;
}
static void add_exec_stats(Json& st, const Exec& e) {
  auto add = [&](const char* k, uint64_t v) { st.set(k, Json::num(st.u(k) + v)); };
  add("calls", e.n_calls);
  add("ro_mappings", e.n_protect);
  add("exact_extent_blocks", e.n_exact);
  add("life_windows", e.n_life);
  add("fresh_twins", e.n_twin);
  add("model_coeffs_checked", e.n_model_checks);
  add("adjacent_buffers", e.n_adjacent);
  add("scratch_reused_dirty", e.n_tmp_reused);
  add("fpenv_checks", e.n_fpenv_checks);
  static const char* fn[] = {"fill_zero", "fill_ff", "fill_qnan", "fill_snan", "fill_random", "fill_a5"};
  for (int i = 0; i < SIM_FILL_NKINDS; ++i) add(fn[i], e.n_prefill[i]);
  for (int i = 0; i < 8; ++i) add((std::string("off") + std::to_string(i * 8)).c_str(), e.n_off[i]);
}
static void program_stats(Json& st, const Program& P) {
  std::map<std::string, int> ops;
  int dftspace = 0, zero_size = 0, inplace = 0, ntt = 0, repeats = 0;
  for (auto& c : P.calls) {
    ops[op_info[c.op].name]++;
    const OpInfo& oi = op_info[c.op];
    if (c.op == OP_DFT || c.op == OP_SVP_APPLY_DFT || c.op == OP_VMP_APPLY_DFT || c.op == OP_VMP_APPLY_DFT_TO_DFT || c.op == OP_IDFT || c.op == OP_IDFT_TMP_A || c.op == OP_SMALL_PRODUCT) dftspace++;
    for (int k = 0; k < oi.nslots; ++k) {
      int t = P.slots[c.s[k]].type;
      if ((t == T_ZV || t == T_BIG || t == T_DFT) && c.sz[k] == 0 && oi.level == 0 && c.op != OP_SMALL_PRODUCT && c.op != OP_SVP_PREPARE) zero_size++;
      for (int j = 0; j < k; ++j)
        if (c.s[j] == c.s[k]) inplace++;
    }
    if (c.mod >= 0 && P.modules[c.mod].type == 1) ntt++;
    if (c.repeat_of >= 0) repeats++;
  }
  Json o = Json::obj();
  for (auto& kv : ops) o.set(kv.first, Json::inum(kv.second));
  st.set("ops", o);
  st.set("dft_space_calls", Json::inum(dftspace)).set("zero_size_operands", Json::inum(zero_size)).set("aliased_operands", Json::inum(inplace)).set("ntt120_calls", Json::inum(ntt)).set("repeat_calls", Json::inum(repeats));
  st.set("ncalls", Json::num(P.calls.size())).set("nslots", Json::num(P.slots.size())).set("ntasks", Json::inum(P.ntasks));
  uint64_t maxn = 0;
  for (auto& m : P.modules) maxn = std::max<uint64_t>(maxn, m.n);
  for (auto& t : P.tables) maxn = std::max<uint64_t>(maxn, 2 * t.m);
  st.set("max_n", Json::num(maxn));
  st.set("prog_hash", Json::num(hash_bytes(P.to_json().dump().data(), P.to_json().dump().size())));
  // a readable digest of the first calls (evidence samples)
  std::string dg;
  for (size_t i = 0; i < P.calls.size() && i < 14; ++i) {
    const Call& c = P.calls[i];
    const OpInfo& oi = op_info[c.op];
    if (i) dg += "; ";
    if (c.task >= 0) dg += "t" + std::to_string(c.task) + ":";
    dg += oi.name;
    dg += "(";
    if (c.mod >= 0) dg += "N=" + std::to_string(P.modules[c.mod].n) + (P.modules[c.mod].type ? ",ntt120" : "");
    if (c.tab >= 0) dg += "m=" + std::to_string(P.tables[c.tab].m);
    if (oi.level == 2) dg += "m=" + std::to_string(c.p[0]);
    for (int k = 0; k < oi.nslots; ++k) {
      int t = P.slots[c.s[k]].type;
      if (t == T_ZV || t == T_BIG || t == T_DFT) dg += (k ? "," : ",sz=") + std::to_string(c.sz[k]);
    }
    if (c.repeat_of >= 0) dg += ",repeat_of=" + std::to_string(c.repeat_of);
    dg += ")";
  }
  if (P.calls.size() > 14) dg += "; ... " + std::to_string(P.calls.size() - 14) + " more";
  st.set("digest", Json::str(dg));
}

// ---------------------------------------------------------------------------------------------- single-thread worlds
static void run_single(const RunSpec& s, RunResult& R) {
  ExecEnv env;
  env.mask = s.maskA;
  env.use_model = true;
  if (s.world == "c16") {
    env.calm = s.variant == 0;
    env.protect_sources = s.variant == 1;
    env.model_compare = true;
  } else if (s.world == "c18") {
    env.protect_sources = true;
    env.model_compare = false;
  }
  Exec e(s.P, env);
  e.setup_objects();
  e.run_range(-1);
  e.release_all();
  fold_exec(R, e, "run");
  add_exec_stats(R.stats, e);
}

// C11: asan flavour. Two executions of the same program under different garbage / offsets; traces must agree.
static void run_c11(const RunSpec& s, RunResult& R) {
  ExecEnv env;
  env.mask = s.maskA;
  env.use_model = true;
  env.model_compare = false;
  env.conservation = true;
  env.protect_sources = sim_flavour != SIM_ASAN;
  sim_set_lib_fill(SIM_FILL_ZERO, s.mem_salt);  // first execution: fresh heap memory reads as zero (what a new mapping gives)
  Exec a(s.P, env);
  a.setup_objects();
  a.run_range(-1);
  ExecEnv env2 = env;
  env2.vary_memory = true;
  env2.mem_salt = s.mem_salt | 1;
  sim_set_lib_fill((s.mem_salt >> 7) & 1 ? SIM_FILL_FF : SIM_FILL_RANDOM, s.mem_salt ^ 0xabcdef);  // second: recycled, dirty
  Exec b(s.P, env2);
  b.setup_objects();
  b.run_range(-1);
  int opnd = 0;
  int d = compare_traces(a, b, &opnd);
  if (d >= 0) {
    Violation v;
    v.kind = "garbage-dependent-output";
    v.detail = std::string(op_info[s.P.calls[d].op].name) + ": output operand " + std::to_string(opnd) + " depends on previous contents / placement of scratch, output or fresh heap memory";
    v.call = d;
    v.op = s.P.calls[d].op;
    R.viol.push_back(v);
    R.status = "violation";
  }
  a.release_all();
  b.release_all();
  fold_exec(R, a, "exec1");
  fold_exec(R, b, "exec2");
  add_exec_stats(R.stats, a);
  add_exec_stats(R.stats, b);
  R.stats.set("lib_allocs", Json::num(sim_lib_alloc_count())).set("lib_alloc_bytes", Json::num(sim_lib_alloc_bytes()));
}

// C07: same program, objects created under two CPU masks.
static bool close_enough(const Program& P, const Call& c, const uint8_t* pa, const uint8_t* pb, uint64_t nbytes, std::string* why) {
  const uint64_t n = nbytes / 8;
  const double* A = (const double*)pa;
  const double* B = (const double*)pb;
  auto bits_of = [&](int k) { return (double)P.slots[c.s[k]].bits; };
  switch (c.op) {
    case OP_REIM_FFT:
    case OP_REIM_IFFT:
    case OP_CPLX_FFT:
    case OP_CPLX_IFFT: {
      long double d2 = 0, n2 = 0;
      for (uint64_t i = 0; i < n; ++i) {
        long double d = (long double)A[i] - B[i];
        d2 += d * d;
        n2 += std::max((long double)A[i] * A[i], (long double)B[i] * B[i]);
      }
      long double lg = log2l((long double)n) + 1;
      long double tol = 2 * 8 * lg * 1.1102230246251565e-16L * sqrtl(n2) * 1.01L;
      tol += sqrtl((long double)n) * 8 * lg * 4.9406564584124654e-324L;  // gradual underflow: half a unit of 2^-1074 per operation
      if (sqrtl(d2) <= tol) return true;
      if (why) *why = "2-norm of the difference exceeds 2*8*log2(2m)*eps*||x||";
      return false;
    }
    case OP_REIM_MUL:
    case OP_CPLX_MUL:
    case OP_R4_MUL:
    case OP_REIM_ADDMUL:
    case OP_CPLX_ADDMUL:
    case OP_R4_ADDMUL: {
      double bound = ldexp(1.0, -48) * (ldexp(1.0, (int)(bits_of(1) + bits_of(2) + 1)) + (op_info[c.op].roles[0] == 'x' ? ldexp(1.0, (int)bits_of(0)) : 0));
      if (bound < ldexp(1.0, -1068)) bound = ldexp(1.0, -1068);  // a few units of the smallest subnormal
      for (uint64_t i = 0; i < n; ++i)
        if (!(fabs(A[i] - B[i]) <= bound)) {
          if (why) *why = "pointwise product differs by more than 32 eps * (|a||b| + |r|)";
          return false;
        }
      return true;
    }
    case OP_REIM_TO_TNX: {
      double tol = 2 * ldexp(1.0, (int)P.tables[c.tab].log2 - 50);
      for (uint64_t i = 0; i < n; ++i) {
        double d = A[i] - B[i];
        d -= rint(d);
        if (!(fabs(d) <= tol)) {
          if (why) *why = "torus value differs by more than 2*2^(log2overhead-50)";
          return false;
        }
      }
      return true;
    }
    default:
      if (memcmp(pa, pb, nbytes) == 0) return true;
      if (why) *why = "exact conversion / data movement differs bit-wise";
      return false;
  }
}
static void run_c07(const RunSpec& s, RunResult& R) {
  ExecEnv ea, eb;
  ea.mask = s.maskA;
  eb.mask = s.maskB;
  ea.use_model = eb.use_model = true;
  Exec a(s.P, ea);
  a.setup_objects();
  a.run_range(-1);
  Exec b(s.P, eb);
  b.setup_objects();
  b.run_range(-1);
  uint64_t compared = 0;
  for (size_t i = 0; i < s.P.calls.size(); ++i) {
    if (!a.done[i] || !b.done[i]) continue;
    const Call& c = s.P.calls[i];
    const OpInfo& oi = op_info[c.op];
    int oh = 0;
    for (int k = 0; k < oi.nslots; ++k) {
      if (!(oi.roles[k] == 'o' || oi.roles[k] == 'x')) continue;
      bool integer = op_is_integer_output(s.P, c, k);
      if (oi.level == 0) {
        // module level: integer-typed results bit-identical; DFT-space values are compared once they are back in integers
        if (integer && (a.approx[i] || b.approx[i])) {
          // edge-of-budget product: both variants were compared with the exact value within the documented bound; one of
          // them failing that comparison while the other passes is a dispatch dependence
          bool fa = false, fb = false;
          for (auto& v : a.viol) fa |= v.kind == "model-mismatch" && v.call == (int)i;
          for (auto& v : b.viol) fb |= v.kind == "model-mismatch" && v.call == (int)i;
          compared++;
          if (fa != fb) {
            Violation v;
            v.kind = "dispatch-dependent-output";
            v.detail = std::string(oi.name) + ": result is outside the documented error bound under mask " + (fa ? mask_names[s.maskA] : mask_names[s.maskB]) + " only";
            v.call = (int)i;
            v.op = c.op;
            R.viol.push_back(v);
            R.status = "violation";
          }
        } else if (integer) {
          compared++;
          if (a.out_hash[i][oh] != b.out_hash[i][oh]) {
            Violation v;
            v.kind = "dispatch-dependent-output";
            v.detail = std::string(oi.name) + ": result differs between CPU masks " + mask_names[s.maskA] + " and " + mask_names[s.maskB];
            v.call = (int)i;
            v.op = c.op;
            R.viol.push_back(v);
            R.status = "violation";
          }
        }
      } else {
        // table level: buffers are never reused by later calls, so both variants are still intact here
        std::string why;
        compared++;
        if (!close_enough(s.P, c, a.ptr[c.s[k]], b.ptr[c.s[k]], a.bytes[c.s[k]], &why)) {
          Violation v;
          v.kind = "dispatch-dependent-output";
          v.detail = std::string(oi.name) + " (" + mask_names[s.maskA] + " vs " + mask_names[s.maskB] + "): " + why;
          v.call = (int)i;
          v.op = c.op;
          R.viol.push_back(v);
          R.status = "violation";
        }
      }
      oh++;
    }
  }
  // ride-along (not a dispatch fault): exported q120 product twins the caller selects by symbol were given identical
  // operands; lazy lanes must agree modulo their prime
  static const uint64_t primes[4] = {Q1, Q2, Q3, Q4};
  uint64_t pairs = 0;
  for (size_t j = 0; j < s.P.calls.size(); ++j) {
    const Call& c = s.P.calls[j];
    int i = c.repeat_of;
    if (i >= 0 && c.op >= OP_R4_1COL_REF && c.op <= OP_CPLX_ADDMUL_KAVX512 && a.done[i] && a.done[j]) {
      // exact-arithmetic operands: the twins must agree numerically (+0 and -0 are the same number)
      const uint64_t nd = s.P.slots[c.s[0]].n;
      const double* x = (const double*)a.ptr[s.P.calls[i].s[0]];
      const double* y = (const double*)a.ptr[c.s[0]];
      pairs++;
      for (uint64_t k = 0; k < nd; ++k)
        if (!(x[k] == y[k])) {
          Violation v;
          v.kind = "dispatch-dependent-output";
          v.detail = std::string(op_info[c.op].name) + " disagrees with " + op_info[s.P.calls[i].op].name + " at component " + std::to_string(k) + " on operands whose products and sums are exactly representable";
          v.call = (int)j;
          v.op = c.op;
          R.viol.push_back(v);
          R.status = "violation";
          break;
        }
      continue;
    }
    if (i >= 0 && c.op >= OP_ZNX_ADD_REF && c.op <= OP_RNX_DIV_AVX && a.done[i] && a.done[j]) {
      // data-movement / integer / one-multiplication kernels: the twins return identical bytes
      const uint64_t nb = s.P.slots[c.s[0]].n * 8;
      pairs++;
      if (memcmp(a.ptr[s.P.calls[i].s[0]], a.ptr[c.s[0]], nb) != 0) {
        Violation v;
        v.kind = "dispatch-dependent-output";
        v.detail = std::string(op_info[c.op].name) + " disagrees with " + op_info[s.P.calls[i].op].name + " on identical operands (nn=" + std::to_string(c.p[0]) + ")";
        v.call = (int)j;
        v.op = c.op;
        R.viol.push_back(v);
        R.status = "violation";
      }
      continue;
    }
    if (i < 0 || c.op < OP_Q120_BAA_REF || c.op > OP_Q120X2_2COLS_AVX2 || !a.done[i] || !a.done[j]) continue;
    const uint64_t* x = (const uint64_t*)a.ptr[s.P.calls[i].s[0]];
    const uint64_t* y = (const uint64_t*)a.ptr[c.s[0]];
    uint64_t n = s.P.slots[c.s[0]].n;
    pairs++;
    for (uint64_t k = 0; k < n; ++k)
      if (x[k] % primes[k & 3] != y[k] % primes[k & 3]) {
        Violation v;
        v.kind = "dispatch-dependent-output";
        v.detail = std::string(op_info[c.op].name) + " disagrees with " + op_info[s.P.calls[i].op].name + " modulo prime " + std::to_string(k & 3) + " on identical operands (ell=" + std::to_string(c.p[0]) + ")";
        v.call = (int)j;
        v.op = c.op;
        R.viol.push_back(v);
        R.status = "violation";
        break;
      }
  }
  R.stats.set("kernel_pairs_compared", Json::num(pairs));
  a.release_all();
  b.release_all();
  fold_exec(R, a, mask_names[s.maskA]);
  fold_exec(R, b, mask_names[s.maskB]);
  add_exec_stats(R.stats, a);
  add_exec_stats(R.stats, b);
  R.stats.set("outputs_compared", Json::num(compared));
}

// ---------------------------------------------------------------------------------------------- C15: histories
struct Mailbox {
  pthread_mutex_t mu = PTHREAD_MUTEX_INITIALIZER;
  pthread_cond_t cv = PTHREAD_COND_INITIALIZER;
  int job = -1;  // call index, -2 = quit
  bool busy = false;
  Exec* ex = nullptr;
};
static void* history_worker(void* a) {
  Mailbox* m = (Mailbox*)a;
  pthread_mutex_lock(&m->mu);
  for (;;) {
    while (m->job == -1) pthread_cond_wait(&m->cv, &m->mu);
    if (m->job == -2) break;
    int j = m->job;
    pthread_mutex_unlock(&m->mu);
    m->ex->run_call(j);
    pthread_mutex_lock(&m->mu);
    m->job = -1;
    m->busy = false;
    pthread_cond_broadcast(&m->cv);
  }
  pthread_mutex_unlock(&m->mu);
  return nullptr;
}
static void run_c15(const RunSpec& s, RunResult& R) {
  ExecEnv env;
  env.mask = s.maskA;
  env.use_model = true;
  env.model_compare = false;
  env.fresh_twin = true;
  env.protect_sources = true;
  env.calm = s.force_calm;
  Exec e(s.P, env);
  e.setup_objects();
  int nt = s.P.ntasks > 0 ? s.P.ntasks : 1;
  std::vector<Mailbox> mb(nt);
  std::vector<pthread_t> th(nt);
  for (int t = 0; t < nt; ++t) {
    mb[t].ex = &e;
    pthread_create(&th[t], nullptr, history_worker, &mb[t]);
  }
  bool stop = false;
  for (size_t i = 0; i < s.P.calls.size() && !stop; ++i) {
    int t = s.P.calls[i].task;
    if (t < 0 || t >= nt) t = 0;
    Mailbox& m = mb[t];
    pthread_mutex_lock(&m.mu);
    m.job = (int)i;
    m.busy = true;
    pthread_cond_broadcast(&m.cv);
    while (m.busy) pthread_cond_wait(&m.cv, &m.mu);
    pthread_mutex_unlock(&m.mu);
    for (auto& v : e.viol)
      if (v.kind == "invalid-program") stop = true;
  }
  for (int t = 0; t < nt; ++t) {
    pthread_mutex_lock(&mb[t].mu);
    mb[t].job = -2;
    pthread_cond_broadcast(&mb[t].cv);
    pthread_mutex_unlock(&mb[t].mu);
    pthread_join(th[t], nullptr);
  }
  // repeat identity
  uint64_t repeats = 0, cross_thread = 0, collisions = 0;
  for (size_t j = 0; j < s.P.calls.size(); ++j) {
    int i = s.P.calls[j].repeat_of;
    if (i < 0 || !e.done[j] || !e.done[i]) continue;
    repeats++;
    if (s.P.calls[i].task != s.P.calls[j].task) cross_thread++;
    if (e.out_hash[i] != e.out_hash[j]) {
      Violation v;
      v.kind = "history-dependent-output";
      v.detail = std::string(op_info[s.P.calls[j].op].name) + ": call " + std::to_string(j) + " repeats call " + std::to_string(i) + " with equal arguments but returns different bytes";
      v.call = (int)j;
      v.op = s.P.calls[j].op;
      R.viol.push_back(v);
      R.status = "violation";
    }
  }
  // cache-slot collisions actually hit: consecutive uses of a thread-local cached *_simple function on one thread with
  // the same m but another divisor/bound
  std::map<std::pair<int, int>, std::vector<double>> last;
  for (auto& c : s.P.calls) {
    if (c.op != OP_REIM_TO_ZNX64_SIMPLE && c.op != OP_CPLX_TO_TNX32_SIMPLE) continue;
    std::vector<double> key = {(double)c.p[0], c.dp, (double)c.p[1]};
    auto k = std::make_pair(c.task, c.op);
    if (last.count(k) && last[k] != key) collisions++;
    last[k] = key;
  }
  e.release_all();
  fold_exec(R, e, "history");
  add_exec_stats(R.stats, e);
  R.stats.set("repeats_checked", Json::num(repeats)).set("repeats_cross_thread", Json::num(cross_thread)).set("cache_collisions", Json::num(collisions)).set("threads", Json::inum(nt));
}

// ---------------------------------------------------------------------------------------------- C12: concurrency
struct TaskArg {
  Exec* ex;
  int task;
};
static void* task_main(void* a) {
  TaskArg* t = (TaskArg*)a;
  sim_task_enter(t->task);
  t->ex->run_range(t->task);
  sim_task_exit();
  return nullptr;
}
static void run_phase(const RunSpec& s, std::vector<Exec*>& ex, const sim_sched_cfg& cfg) {
  const int T = s.P.ntasks;
  std::vector<pthread_t> th(T);
  std::vector<TaskArg> args(T);
  sim_sched_begin(T, &cfg);
  for (int t = 0; t < T; ++t) {
    args[t].ex = ex[t];
    args[t].task = t;
    pthread_attr_t at;
    pthread_attr_init(&at);
    pthread_attr_setstacksize(&at, 1 << 20);
    pthread_create(&th[t], &at, task_main, &args[t]);
    pthread_attr_destroy(&at);
  }
  sim_sched_start();
  for (int t = 0; t < T; ++t) pthread_join(th[t], nullptr);
  sim_sched_end();
}

static std::vector<uint64_t> g_out_dsteps;
static std::vector<int> g_out_dtasks;

static void run_c12(const RunSpec& s, RunResult& R) {
  const int T = s.P.ntasks;
  ExecEnv env;
  env.mask = s.maskA;
  env.use_model = true;
  env.protect_sources = true;
  sim_set_lib_fill(SIM_FILL_A5, s.mem_salt);
  Exec setup(s.P, env);
  setup.setup_objects();
  for (size_t i = 0; i < s.P.slots.size(); ++i)
    if (s.P.slots[i].owner == -1 && s.P.slots[i].input) setup.ensure_slot((int)i);
  setup.run_range(-1);  // prepared objects + the documented dry-run of every *_simple (function, dimension) used later
  bool invalid = false;
  for (auto& v : setup.viol)
    if (v.kind == "invalid-program") invalid = true;
  if (!invalid && s.warm && !s.serial_only) {
    // warmed start state: every task program has completed once (serially, main thread) before the concurrent phase
    for (int t = 0; t < T; ++t) {
      Exec w(s.P, env, &setup);
      w.setup_objects();
      w.run_range(t);
      w.release_all();
    }
  }
  // shared objects are immutable from here on
  for (size_t i = 0; i < s.P.slots.size(); ++i)
    if (setup.ptr[i]) sim_freeze(setup.ptr[i]);
  setup.place_groups();  // columns of one block, produced by different tasks: writable, never frozen

  std::vector<Exec*> cx(T, nullptr), sx(T, nullptr);
  sim_sched_stats st;
  memset(&st, 0, sizeof(st));
  if (!invalid && !s.serial_only) {
    for (int t = 0; t < T; ++t) {
      cx[t] = new Exec(s.P, env, &setup);
      cx[t]->setup_objects();
    }
    sim_sched_cfg cfg;
    memset(&cfg, 0, sizeof(cfg));
    cfg.policy = s.policy;
    cfg.seed = s.sched_seed;
    cfg.switch_den = s.switch_den;
    cfg.window_pct = s.window_pct;
    cfg.pct_depth = s.pct_depth;
    cfg.pct_span = s.pct_span;
    cfg.max_steps = 5000000;
    cfg.max_switches = 120000;
    cfg.replay_steps = s.dsteps.data();
    cfg.replay_tasks = s.dtasks.data();
    cfg.replay_n = (uint32_t)s.dsteps.size();
    run_phase(s, cx, cfg);
    sim_sched_get_stats(&st);
    const uint64_t* ds;
    const int* dt;
    uint32_t nd = sim_sched_decisions(&ds, &dt);
    g_out_dsteps.assign(ds, ds + nd);
    g_out_dtasks.assign(dt, dt + nd);
  }
  if (!invalid) {
    // serial re-execution on fresh threads with the same memory plan: the schedule is the only variable
    for (int t = 0; t < T; ++t) {
      sx[t] = new Exec(s.P, env, &setup);
      sx[t]->setup_objects();
    }
    sim_sched_cfg cfg;
    memset(&cfg, 0, sizeof(cfg));
    cfg.policy = SIM_POL_SERIAL;
    cfg.max_steps = ~0ull;
    run_phase(s, sx, cfg);
  }
  for (int t = 0; t < T && !invalid; ++t) {
    if (cx[t]) {
      R.task_hash_conc.push_back(exec_trace_hash(*cx[t], t));
      int opnd = 0;
      int d = compare_traces(*cx[t], *sx[t], &opnd);
      if (d >= 0) {
        Violation v;
        v.kind = "schedule-dependent-output";
        v.detail = std::string(op_info[s.P.calls[d].op].name) + ": task " + std::to_string(t) + " call " + std::to_string(d) + " returns other bytes under the concurrent schedule than when run alone";
        v.call = d;
        v.op = s.P.calls[d].op;
        R.viol.push_back(v);
        R.status = "violation";
      }
    }
    R.task_hash_serial.push_back(exec_trace_hash(*sx[t], t));
  }
  for (size_t i = 0; i < s.P.slots.size(); ++i)
    if (setup.ptr[i] && s.P.slots[i].group < 0) sim_unfreeze(setup.ptr[i]);
  R.stats.set("column_group_slots", Json::num(setup.n_group_slots));
  for (int t = 0; t < T; ++t) {
    if (cx[t]) {
      cx[t]->release_all();
      fold_exec(R, *cx[t], "concurrent");
      add_exec_stats(R.stats, *cx[t]);
      delete cx[t];
    }
    if (sx[t]) {
      sx[t]->release_all();
      fold_exec(R, *sx[t], "serial");
      delete sx[t];
    }
  }
  setup.release_all();
  fold_exec(R, setup, "setup");
#if SIM_FLAVOUR == SIM_TSAN
  const sim_tsan_report* g_reps = nullptr;
  const int g_nreps = sim_tsan_reports(&g_reps);
  for (int i = 0; i < g_nreps; ++i) {
    const sim_tsan_report& r = g_reps[i];
    Violation v;
    v.kind = "race";
    char buf[512];
    uint64_t off = 0, size = 0;
    int is_lib = 0, owner = 0;
    int blk = sim_describe((void*)r.mop[0].addr, &off, &size, &is_lib, &owner);
    snprintf(buf, sizeof buf, "%s: %s of size %d at pc=0x%llx (caller 0x%llx) by thread %d vs %s of size %d at pc=0x%llx (caller 0x%llx) by thread %d; location: %s",
             r.desc, r.mop[0].write ? "write" : "read", r.mop[0].size, (unsigned long long)r.mop[0].pc[0], (unsigned long long)r.mop[0].pc[1], r.mop[0].tid,
             r.mop[1].write ? "write" : "read", r.mop[1].size, (unsigned long long)r.mop[1].pc[0], (unsigned long long)r.mop[1].pc[1], r.mop[1].tid,
             blk >= 0 ? (is_lib ? "library heap object" : "harness buffer") : "static data");
    v.detail = buf;
    // class = the unordered pair of access sites
    uint64_t p0 = r.mop[0].pc[0], p1 = r.mop[1].pc[0];
    if (p0 > p1) std::swap(p0, p1);
    v.call = -1;
    v.op = 0;
    v.slot = (int)((p0 * 1000003ull + p1) & 0x7fffffff);
    snprintf(buf, sizeof buf, " sites=0x%llx,0x%llx", (unsigned long long)p0, (unsigned long long)p1);
    v.detail += buf;
    R.viol.push_back(v);
    R.status = "violation";
    R.mix(p0 * 31 + p1);
  }
  R.stats.set("tsan_reports", Json::inum(g_nreps));
#endif
  if (st.budget_exceeded && R.status == "ok") R.status = "budget";
  R.stats.set("sched_steps", Json::num(st.steps)).set("switches", Json::num(st.switches)).set("switches_in_lib", Json::num(st.switches_in_lib));
  R.stats.set("window_hits", Json::num(st.window_hits)).set("window_overlap", Json::num(st.window_overlap)).set("static_accesses", Json::num(st.static_accesses));
  R.stats.set("lock_waits", Json::num(st.lock_waits)).set("decisions", Json::num(st.ndecisions)).set("trace_hash", Json::num(st.trace_hash)).set("sched_hash", Json::num(st.sched_hash));
  R.stats.set("policy", Json::str(pol_names[s.policy])).set("warm", Json::inum(s.warm)).set("tasks", Json::inum(T));
  R.mix(st.trace_hash);
  R.mix(st.sched_hash);
}

// ---------------------------------------------------------------------------------------------- one run
static std::string result_json(const RunSpec& s, RunResult& R, long idx) {
  program_stats(R.stats, s.P);
  R.stats.set("maskA", Json::str(mask_names[s.maskA])).set("maskB", Json::str(mask_names[s.maskB])).set("address_reuse", Json::inum(s.reuse && SIM_FLAVOUR != SIM_TSAN));
  for (auto& v : R.viol) R.mix(hash_bytes(v.kind.data(), v.kind.size()) + (uint64_t)v.call * 7 + (uint64_t)v.op);
  Json j = Json::obj();
  j.set("run", Json::inum(idx)).set("seed", Json::num(s.run_seed)).set("world", Json::str(s.world)).set("variant", Json::inum(s.variant)).set("status", Json::str(R.status));
  Json va = Json::arr();
  for (auto& v : R.viol)
    va.push(Json::obj().set("kind", Json::str(v.kind)).set("detail", Json::str(v.detail)).set("call", Json::inum(v.call)).set("op", Json::str(op_info[v.op].name)).set("slot", Json::inum(v.slot)));
  j.set("viol", va);
  j.set("log_hash", Json::num(R.log_hash));
  Json hc = Json::arr(), hs = Json::arr();
  for (uint64_t h : R.task_hash_conc) hc.push(Json::num(h));
  for (uint64_t h : R.task_hash_serial) hs.push(Json::num(h));
  j.set("task_hash_conc", hc).set("task_hash_serial", hs);
  j.set("stats", R.stats);
  return j.dump();
}

static void execute(const RunSpec& s, RunResult& R) {
  sim_heap_init(s.run_seed);
  sim_set_reuse(s.reuse);
  if (s.world == "c11")
    run_c11(s, R);
  else if (s.world == "c07")
    run_c07(s, R);
  else if (s.world == "c15")
    run_c15(s, R);
  else if (s.world == "c12")
    run_c12(s, R);
  else
    run_single(s, R);
}

static std::string read_file(const std::string& path) {
  std::ifstream f(path);
  std::stringstream ss;
  ss << f.rdbuf();
  return ss.str();
}

// DRD ride-along (plain flavour under `valgrind --tool=drd`): conflicting accesses made inside library calls to
// caller-owned operand memory, at every access width and in the assembly kernels. Conflicts on the library's own
// static or heap data are left to the ThreadSanitizer worlds (DRD does not understand C11 acquire/release, so a
// correctly synchronised lazy initialisation would look like a race to it).
static void drd_collect(RunResult& R, int fd) {
  const unsigned nerr = sim_drd_error_count();
  R.stats.set("drd_reports_total", Json::num(nerr));
  const char* dir = getenv("SIM_DRD_LOGDIR");
  if (!dir) return;
  std::string path = std::string(dir) + "/" + std::to_string((long)getpid()) + ".log";
  uint64_t on_operands = 0;
  if (nerr) {
    std::ifstream f(path);
    std::string l, acc, size;
    uint64_t addr = 0;
    bool in_stack = false;
    std::vector<std::pair<std::string, std::string>> frames;  // (function, file:line), innermost first
    std::vector<std::string> seen;
    auto finish = [&]() {
      if (!in_stack) return;
      in_stack = false;
      uint64_t off = 0, bsize = 0;
      int is_lib = 0, owner = 0;
      if (sim_describe((void*)addr, &off, &bsize, &is_lib, &owner) < 0 || is_lib || frames.empty()) return;
      // name the library function, not the intrinsic or libc routine inlined into / called from it
      size_t k = 0;
      while (k + 1 < frames.size() && (frames[k].first.compare(0, 3, "_mm") == 0 || frames[k].first.compare(0, 3, "mem") == 0 || frames[k].first.compare(0, 2, "__") == 0)) k++;
      const std::string fn = frames[k].first, loc = frames[k].second;
      on_operands++;
      std::string key = fn;
      if (std::find(seen.begin(), seen.end(), key) != seen.end() || seen.size() >= 4) return;
      seen.push_back(key);
      std::string ev = "DRDREP acc=" + acc + " size=" + size + " fn=" + fn + " loc=" + loc + " owner=" + std::to_string(owner) + "\n";
      (void)!write(fd, ev.data(), ev.size());
      R.status = "violation";
      R.mix(hash_bytes(key.data(), key.size()));
    };
    while (std::getline(f, l)) {
      size_t p = l.find("Conflicting ");
      if (p != std::string::npos) {
        finish();
        std::istringstream is(l.substr(p + 12));
        std::string by, thread, tid, at, a, sz;
        is >> acc >> by >> thread >> tid >> at >> a >> sz >> size;
        addr = strtoull(a.c_str(), nullptr, 16);
        in_stack = true;
        frames.clear();
        continue;
      }
      if (!in_stack) continue;
      p = l.find("   at 0x");
      if (p == std::string::npos) p = l.find("   by 0x");
      if (p == std::string::npos) {
        finish();
        continue;
      }
      size_t c = l.find(": ", p);
      std::string rest = c == std::string::npos ? "?" : l.substr(c + 2);  // fn (file:line)
      std::string fn = rest.substr(0, rest.find(' '));
      size_t lp = rest.rfind('('), rp = rest.rfind(')');
      std::string loc = lp != std::string::npos && rp != std::string::npos && rp > lp ? rest.substr(lp + 1, rp - lp - 1) : "?";
      for (auto& ch : loc)
        if (ch == ' ') ch = '_';
      if (frames.size() < 6) frames.push_back({fn, loc});
    }
    finish();
  }
  R.stats.set("drd_reports_on_operands", Json::num(on_operands));
  unlink(path.c_str());
}

// runs one world in this process and writes the result line to fd
static int child_run(const RunSpec& s, long idx, int fd, const char* dump_path) {
  sim_fctx.result_fd = fd;
  sim_fctx.run_seed = s.run_seed;
  for (int i = 0; i < 32; ++i) sim_fctx.cur_call[i] = -1;
  sim_install_fault_handlers();
  alarm(s.thorough ? 300 : 60);
  if (dump_path) {
    // written before anything runs, so that a run ending in a fault still leaves its explicit program behind
    // (for a concurrent world the schedule is then the recorded policy+seed; a completed run rewrites the file
    // with the explicit decisions below)
    std::ofstream f(dump_path);
    f << spec_to_json(s, nullptr, nullptr).dump() << "\n";
    if (s.world == "c12") {
      std::string dp = std::string(dump_path) + ".dec";
      int dfd = open(dp.c_str(), O_WRONLY | O_CREAT | O_TRUNC, 0644);
      if (dfd >= 0) sim_set_decision_fd(dfd);
    }
  }
  RunResult R;
  sim_drd_thread_init();
  execute(s, R);
  if (sim_drd_mode()) drd_collect(R, fd);
  std::string line = "RESULT " + result_json(s, R, idx) + "\n";
  (void)!write(fd, line.data(), line.size());
  if (dump_path) {
    Json j = spec_to_json(s, s.world == "c12" && !s.serial_only ? &g_out_dsteps : nullptr, s.world == "c12" && !s.serial_only ? &g_out_dtasks : nullptr);
    std::ofstream f(dump_path);
    f << j.dump() << "\n";
  }
  return 0;
}

static void usage() {
  fprintf(stderr,
          "usage: world --world c07|c11|c12|c15|c16|c18 [--variant v] --seed S --first I --count K [--thorough] [--verbose]\n"
          "       world --world W --seed S --one I [--dump file] [--serial-only]     (single run, no fork)\n"
          "       world --replay file.json [--dump file] [--verbose]\n");
}

int main(int argc, char** argv) {
  std::string world, replay, dump;
  uint64_t seed = 1;
  long first = 0, count = 1, one = -1;
  int variant = 0;
  bool thorough = false, serial_only = false, same_mask = false, same_mask_b = false, calm = false;
  for (int i = 1; i < argc; ++i) {
    std::string a = argv[i];
    auto nx = [&]() -> const char* { return i + 1 < argc ? argv[++i] : ""; };
    if (a == "--world") world = nx();
    else if (a == "--seed") seed = strtoull(nx(), 0, 10);
    else if (a == "--first") first = atol(nx());
    else if (a == "--count") count = atol(nx());
    else if (a == "--one") one = atol(nx());
    else if (a == "--variant") variant = atoi(nx());
    else if (a == "--thorough") thorough = true;
    else if (a == "--replay") replay = nx();
    else if (a == "--dump") dump = nx();
    else if (a == "--verbose") g_verbose = true;
    else if (a == "--serial-only") serial_only = true;
    else if (a == "--same-mask") same_mask = true;
    else if (a == "--same-mask-b") same_mask_b = true;
    else if (a == "--calm") calm = true;
    else {
      usage();
      return 64;
    }
  }
  setvbuf(stdout, nullptr, _IOLBF, 0);
  if (!replay.empty()) {
    Json j;
    std::string err;
    RunSpec s;
    if (!Json::parse(read_file(replay), j) || !spec_from_json(j, s, err)) {
      fprintf(stderr, "cannot load replay %s: %s\n", replay.c_str(), err.c_str());
      return 64;
    }
    if (serial_only) s.serial_only = true;
    if (same_mask) s.maskB = s.maskA;
    if (same_mask_b) s.maskA = s.maskB;
    if (calm) s.force_calm = true;
    return child_run(s, -1, 1, dump.empty() ? nullptr : dump.c_str());
  }
  if (world.empty()) {
    usage();
    return 64;
  }
  if (one >= 0) {
    RunSpec s = derive_spec(world, variant, mix64(seed, (uint64_t)one), thorough);
    s.serial_only = serial_only;
    return child_run(s, one, 1, dump.empty() ? nullptr : dump.c_str());
  }
  // zygote loop
  int devnull = open("/dev/null", O_WRONLY);
  for (long idx = first; idx < first + count; ++idx) {
    int pfd[2];
    if (pipe(pfd)) return 70;
    fflush(stdout);
    pid_t pid = fork();
    if (pid == 0) {
      close(pfd[0]);
      if (!g_verbose && devnull >= 0) dup2(devnull, 2);
      RunSpec s = derive_spec(world, variant, mix64(seed, (uint64_t)idx), thorough);
      child_run(s, idx, pfd[1], nullptr);
      _exit(0);
    }
    close(pfd[1]);
    std::string out;
    char buf[65536];
    for (;;) {
      ssize_t n = read(pfd[0], buf, sizeof buf);
      if (n <= 0) break;
      out.append(buf, (size_t)n);
    }
    close(pfd[0]);
    int status = 0;
    waitpid(pid, &status, 0);
    bool has_result = out.find("RESULT ") != std::string::npos;
    // fault lines come first (signal handler / sanitizer hook), a RESULT line only if the run completed
    size_t pos = 0;
    while (pos < out.size()) {
      size_t e = out.find('\n', pos);
      if (e == std::string::npos) e = out.size();
      std::string line = out.substr(pos, e - pos);
      pos = e + 1;
      if (line.rfind("RESULT ", 0) == 0)
        printf("%s\n", line.c_str());
      else if (!line.empty())
        printf("EVENT run=%ld seed=%llu %s\n", idx, (unsigned long long)mix64(seed, (uint64_t)idx), line.c_str());
    }
    if (!has_result) {
      int code = WIFEXITED(status) ? WEXITSTATUS(status) : -1;
      int sig = WIFSIGNALED(status) ? WTERMSIG(status) : 0;
      printf("DIED run=%ld seed=%llu exit=%d signal=%d\n", idx, (unsigned long long)mix64(seed, (uint64_t)idx), code, sig);
    }
  }
  return 0;
}
