// Shared declarations of the simulation harness (see /verif/DESIGN.md §2-§4).
#pragma once
#include <cstdint>
#include <cstdio>
#include <cstdlib>
#include <cstring>
#include <functional>
#include <map>
#include <string>
#include <vector>

#include "simrt.h"

typedef __int128 i128;
typedef unsigned __int128 u128;

// ---------------------------------------------------------------------------------------------- rng
struct Rng {
  uint64_t s;
  explicit Rng(uint64_t seed = 0, uint64_t stream = 0) { s = seed * 0x9E3779B97F4A7C15ull + stream * 0xD1B54A32D192ED03ull + 0x1234567; next(); }
  uint64_t next() {
    uint64_t z = (s += 0x9E3779B97F4A7C15ull);
    z = (z ^ (z >> 30)) * 0xBF58476D1CE4E5B9ull;
    z = (z ^ (z >> 27)) * 0x94D049BB133111EBull;
    return z ^ (z >> 31);
  }
  uint64_t below(uint64_t n) { return n ? next() % n : 0; }
  int64_t range(int64_t lo, int64_t hi) { return lo + (int64_t)below((uint64_t)(hi - lo + 1)); }  // inclusive
  bool chance(uint32_t num, uint32_t den) { return below(den) < num; }
  template <class T> const T& pick(const std::vector<T>& v) { return v[below(v.size())]; }
};
static inline uint64_t mix64(uint64_t a, uint64_t b) {
  uint64_t z = a * 0x9E3779B97F4A7C15ull ^ (b + 0xD1B54A32D192ED03ull);
  z = (z ^ (z >> 30)) * 0xBF58476D1CE4E5B9ull;
  z = (z ^ (z >> 27)) * 0x94D049BB133111EBull;
  return z ^ (z >> 31);
}
static inline uint64_t hash_bytes(const void* p, size_t n, uint64_t h = 0xcbf29ce484222325ull) {
  const uint8_t* b = (const uint8_t*)p;
  size_t i = 0;
  for (; i + 8 <= n; i += 8) {
    uint64_t v;
    memcpy(&v, b + i, 8);
    h = (h ^ v) * 0x100000001B3ull;
    h ^= h >> 29;
  }
  for (; i < n; ++i) h = (h ^ b[i]) * 0x100000001B3ull;
  return h;
}

// ---------------------------------------------------------------------------------------------- json (minimal)
struct Json {
  enum Kind { NUL, NUM, STR, ARR, OBJ, BOOL } kind = NUL;
  std::string s;  // number text or string
  std::vector<Json> a;
  std::vector<std::pair<std::string, Json>> o;
  Json() {}
  static Json num(uint64_t v) { Json j; j.kind = NUM; j.s = std::to_string(v); return j; }
  static Json inum(int64_t v) { Json j; j.kind = NUM; j.s = std::to_string(v); return j; }
  static Json dbl(double v) { Json j; j.kind = NUM; char b[64]; snprintf(b, sizeof b, "%.17g", v); j.s = b; return j; }
  static Json str(const std::string& v) { Json j; j.kind = STR; j.s = v; return j; }
  static Json arr() { Json j; j.kind = ARR; return j; }
  static Json obj() { Json j; j.kind = OBJ; return j; }
  Json& set(const std::string& k, const Json& v) { for (auto& kv : o) if (kv.first == k) { kv.second = v; return *this; } o.push_back({k, v}); return *this; }
  Json& push(const Json& v) { a.push_back(v); return *this; }
  const Json* get(const std::string& k) const { for (auto& kv : o) if (kv.first == k) return &kv.second; return nullptr; }
  bool has(const std::string& k) const { return get(k) != nullptr; }
  uint64_t u(const std::string& k, uint64_t d = 0) const { auto* j = get(k); return j ? strtoull(j->s.c_str(), 0, 10) : d; }
  int64_t i(const std::string& k, int64_t d = 0) const { auto* j = get(k); return j ? strtoll(j->s.c_str(), 0, 10) : d; }
  double d(const std::string& k, double dv = 0) const { auto* j = get(k); return j ? strtod(j->s.c_str(), 0) : dv; }
  std::string str_(const std::string& k, const std::string& dv = "") const { auto* j = get(k); return j ? j->s : dv; }
  uint64_t asu() const { return strtoull(s.c_str(), 0, 10); }
  int64_t asi() const { return strtoll(s.c_str(), 0, 10); }
  std::string dump() const;
  static bool parse(const std::string& text, Json& out);
};

// ---------------------------------------------------------------------------------------------- program
enum SlotType { T_ZV = 0, T_BIG, T_DFT, T_PPOL, T_PMAT, T_MAT, T_F64, T_I64, T_I32, T_U64, T_U32, T_I128, T_NTYPES };
extern const char* const slot_type_names[];

enum { MASK_ALL = 0, MASK_NONE = 1, MASK_FMA = 2, MASK_AVX2 = 3, MASK_N = 4 };
extern const char* const mask_names[];

struct ModuleSpec {
  uint64_t n = 0;
  int type = 0;  // 0 FFT64, 1 NTT120
};

// precomputed-table kinds
enum TabKind {
  TB_REIM_FFT = 0, TB_REIM_IFFT, TB_REIM_MUL, TB_REIM_ADDMUL, TB_REIM_FROM_ZNX64, TB_REIM_TO_ZNX64, TB_REIM_TO_TNX,
  TB_CPLX_FFT, TB_CPLX_IFFT, TB_CPLX_MUL, TB_CPLX_ADDMUL, TB_CPLX_FROM_ZNX32, TB_CPLX_FROM_TNX32, TB_CPLX_TO_TNX32,
  TB_R4_MUL, TB_R4_ADDMUL, TB_R4_FROM_CPLX, TB_R4_TO_CPLX,
  TB_Q120_NTT, TB_Q120_INTT, TB_Q120_BAA, TB_Q120_BBB, TB_Q120_BBC, TB_NKINDS
};
extern const char* const tab_kind_names[];
struct TableSpec {
  int kind = 0;
  uint64_t m = 0;      // complex dimension (or n for q120 ntt)
  double divisor = 1;  // conversions
  uint32_t log2 = 0;   // log2bound / log2overhead
};

struct Slot {
  int type = T_ZV;
  int mod = -1;       // module index for module-level slots
  uint64_t n = 0;     // ring dimension N for module slots; number of elements for raw slots
  uint64_t size = 0;  // allocated limbs (ZV/BIG/DFT), rows (MAT/PMAT)
  uint64_t sl = 0;    // stride in int64 (ZV), cols (MAT/PMAT)
  // memory plan (faults)
  int place = 0, off8 = 0, fill = 0;
  // inputs: filled by the harness before the first call (input==1)
  int input = 0;
  int pattern = 0;  // see fill_input
  int bits = 0;     // magnitude: |x| < 2^bits
  uint64_t dseed = 0;
  int nnz = 0;      // sparse patterns: number of non-zero coefficients per limb (0 = dense)
  int owner = -1;   // task that produces it (-1 = setup/main)
  int liballoc = 0; // allocate through the library's own new_*/delete_* (opaque FFT64 objects only)
  // arena-style placement fault: `reserve` bytes are kept free right after (side 0) / before (side 1) this slot, and a later
  // slot with neighbor_of == this slot is placed there, touching it (two buffers carved back to back from one arena)
  uint64_t reserve = 0;
  int reserve_side = 0;
  int neighbor_of = -1;
  int interleaved = 0;  // neighbour lives in the host's stride padding (two columns of one matrix: same stride, offset N)
  // C12: column `gidx` of a caller matrix with `gcols` interleaved columns whose other columns are produced by other
  // tasks at the same time (threads splitting one result by columns: disjoint data, byte-adjacent)
  int group = -1, gidx = 0;
  uint64_t gcols = 0;
};

enum Op {
  OP_NONE = 0,
  // module level
  OP_ZERO, OP_COPY, OP_NEGATE, OP_ADD, OP_SUB, OP_ROTATE, OP_AUTOMORPHISM, OP_NORMALIZE,
  OP_DFT, OP_IDFT, OP_IDFT_TMP_A,
  OP_BIG_ADD, OP_BIG_SUB, OP_BIG_ADD_SMALL, OP_BIG_ADD_SMALL2, OP_BIG_SUB_SMALL_A, OP_BIG_SUB_SMALL_B, OP_BIG_SUB_SMALL2,
  OP_BIG_ROTATE, OP_BIG_AUTOMORPHISM, OP_BIG_NORMALIZE, OP_BIG_RANGE_NORMALIZE,
  OP_SVP_PREPARE, OP_SVP_APPLY_DFT, OP_VMP_PREPARE, OP_VMP_APPLY_DFT, OP_VMP_APPLY_DFT_TO_DFT, OP_SMALL_PRODUCT,
  // table level (explicit precomputed tables)
  OP_REIM_FFT, OP_REIM_IFFT, OP_REIM_MUL, OP_REIM_ADDMUL, OP_REIM_FROM_ZNX64, OP_REIM_TO_ZNX64, OP_REIM_TO_TNX,
  OP_CPLX_FFT, OP_CPLX_IFFT, OP_CPLX_MUL, OP_CPLX_ADDMUL, OP_CPLX_FROM_ZNX32, OP_CPLX_FROM_TNX32, OP_CPLX_TO_TNX32,
  OP_R4_MUL, OP_R4_ADDMUL, OP_R4_FROM_CPLX, OP_R4_TO_CPLX,
  OP_Q120_NTT, OP_Q120_INTT,
  OP_Q120_BAA_REF, OP_Q120_BAA_AVX2, OP_Q120_BBB_REF, OP_Q120_BBB_AVX2, OP_Q120_BBC_REF, OP_Q120_BBC_AVX2,
  OP_Q120X2_1COL_REF, OP_Q120X2_1COL_AVX2, OP_Q120X2_2COLS_REF, OP_Q120X2_2COLS_AVX2,
  OP_Q120_B_FROM_ZNX64, OP_Q120_C_FROM_ZNX64, OP_Q120_C_FROM_B, OP_Q120_B_TO_ZNX128, OP_Q120_ADD_BBB, OP_Q120_ADD_CCC,
  OP_Q120X2_EXTRACT_B, OP_Q120X2_EXTRACT_C, OP_Q120X2_EXTRACT_CONTIG, OP_Q120X2_SAVE,
  // exported coefficient kernels selected by symbol (ref / avx twins), p0 = nn, p1 = divisor (double bits)
  OP_ZNX_ADD_REF, OP_ZNX_ADD_AVX, OP_ZNX_SUB_REF, OP_ZNX_SUB_AVX, OP_ZNX_NEG_REF, OP_ZNX_NEG_AVX, OP_RNX_DIV_REF, OP_RNX_DIV_AVX,
  // exported kernels no dispatch site selects: reim4 dot products (p0 = nrows) and the cplx addmul variants (table = cplx addmul, m)
  OP_R4_1COL_REF, OP_R4_1COL_AVX2, OP_R4_2COLS_REF, OP_R4_2COLS_AVX2, OP_CPLX_ADDMUL_KREF, OP_CPLX_ADDMUL_KSSE, OP_CPLX_ADDMUL_KAVX512,
  // *_simple twins (hidden per-dimension caches)
  OP_REIM_FFT_SIMPLE, OP_REIM_IFFT_SIMPLE, OP_REIM_MUL_SIMPLE, OP_REIM_ADDMUL_SIMPLE, OP_REIM_FROM_ZNX64_SIMPLE,
  OP_REIM_TO_ZNX64_SIMPLE,
  OP_CPLX_FFT_SIMPLE, OP_CPLX_IFFT_SIMPLE, OP_CPLX_MUL_SIMPLE, OP_CPLX_ADDMUL_SIMPLE, OP_CPLX_FROM_ZNX32_SIMPLE,
  OP_CPLX_FROM_TNX32_SIMPLE, OP_CPLX_TO_TNX32_SIMPLE,
  OP_R4_MUL_SIMPLE, OP_R4_ADDMUL_SIMPLE, OP_R4_FROM_CPLX_SIMPLE, OP_R4_TO_CPLX_SIMPLE,
  // object life cycle through the library allocator (C11 conservation; results unused)
  OP_LIFE_MODULE, OP_LIFE_DFT, OP_LIFE_BIG, OP_LIFE_PPOL, OP_LIFE_PMAT, OP_LIFE_TABLE, OP_LIFE_ALLOC, OP_LIFE_FFT_BUFFERS, OP_LIFE_MODULE_PAIR, OP_LIFE_MODULE_SEQ, OP_LIFE_TABLE_SEQ,
  OP_NOPS
};

struct OpInfo {
  const char* name;
  int nslots;          // number of buffer operands
  const char* roles;   // per operand: 'o' output, 'i' source, 'x' in/out (accumulated or in-place data), 'd' source destroyed
  int level;           // 0 module, 1 table, 2 simple, 3 life cycle
  int tabkind;         // table kind used by table-level ops (-1 none)
  int twin;            // simple <-> table twin op (OP_NONE if none)
  bool tmp;            // takes a scratch argument
};
extern const OpInfo op_info[OP_NOPS];

struct Call {
  int op = OP_NONE;
  int task = -1;           // issuing task; -1 = main (setup or single-task programs)
  int mod = -1;            // module index
  int tab = -1;            // table index
  uint64_t p[4] = {0, 0, 0, 0};  // op-specific scalars (k, nrows, ncols, range begin/end/step, ell, ...)
  int64_t ip = 0;          // rotation / automorphism exponent
  double dp = 1;           // divisor for *_simple conversions / life-cycle tables
  int s[5] = {-1, -1, -1, -1, -1};            // slot ids, in the order of op_info.roles
  uint64_t sz[5] = {0, 0, 0, 0, 0};           // limb counts passed for each operand
  int tmp_fill = 0;        // scratch pre-fill pattern
  int tmp_place = 0;       // scratch placement
  int repeat_of = -1;      // C15: this call repeats call #repeat_of with equal arguments
};

struct Program {
  std::vector<ModuleSpec> modules;
  std::vector<TableSpec> tables;
  std::vector<Slot> slots;
  std::vector<Call> calls;
  int ntasks = 0;  // 0: single sequence on the main thread
  int persist_tmp = 0;  // one scratch buffer per executor, reused from call to call without refill (what callers do)
  Json to_json() const;
  bool from_json(const Json& j, std::string& err);
};

// ---------------------------------------------------------------------------------------------- inputs
enum { PAT_RANDOM = 0, PAT_ALLMAX, PAT_ALTERNATING, PAT_SPARSE, PAT_ZERO, PAT_SINGLE, PAT_MIXED, PAT_INT64_EDGE, PAT_CARRY, PAT_NPAT };
/** deterministic integer input: element idx of a value described by (pattern,bits,dseed,nnz) */
int64_t input_value(int pattern, int bits, uint64_t dseed, int nnz, uint64_t total, uint64_t idx);

// ---------------------------------------------------------------------------------------------- model
struct MLimb {
  std::vector<i128> c;  // N coefficients
  long double mag = 0;  // DFT-space: bound on the sum of products of l1 norms behind it
  long double tol = 0;  // > 0: the value is only determined up to this absolute error (products at the edge of the budget)
  int depth = 0;
  bool valid = true;
};
struct MVal {
  int type = -1;  // current logical type (T_ZV/T_BIG/T_DFT/T_PPOL/T_PMAT/T_MAT) or -1 = undefined
  uint64_t n = 0;
  std::vector<MLimb> limbs;  // ZV/BIG/DFT: limbs; PPOL: 1; PMAT/MAT: nrows*ncols (row-major)
  uint64_t rows = 0, cols = 0;
};
struct Model {
  const Program* P = nullptr;
  std::vector<MVal> v;  // per slot
  void init(const Program& p);
  /** checks that call c is inside the model's exactness budget given current values; reason on failure */
  bool admissible(const Call& c, std::string* why) const;
  /** applies call c to the model values */
  void apply(const Call& c);
  /** loads an input slot's value from its spec */
  void load_input(int slot);
};
long double poly_l1(const std::vector<i128>& c);
long double poly_l2(const std::vector<i128>& c);
i128 poly_linf(const std::vector<i128>& c);

// ---------------------------------------------------------------------------------------------- generator
struct GenCfg {
  int world = 0;                // which property's workload
  bool module_ops = true, table_ops = false, simple_ops = false, life_ops = false;
  bool ntt120 = false;          // allowed only when avx2 is visible
  bool zero_sizes = false;
  bool repeats = false;         // C15 repeat calls
  bool small_pools = false;     // C15 colliding parameter pools
  bool q120 = false;
  bool column_world = false;    // C12 variant 1: every task writes columns of shared blocks with vector-output entry points
  bool column_groups = false;   // C12: outputs of different tasks are interleaved columns of one block
  bool simple_storm = false;    // C12: tasks hammer one *_simple function over many dimensions (cache eviction / replacement paths)
  bool large_world = false;     // C12: a few worlds use only large dimensions (4096..16384), few tasks, homogeneous work
  bool edge_products = false;   // some products sit at the edge of the 52-bit budget and are compared within the documented error bound
  bool kernel_pairs = false;    // C07 ride-along: exported ref/avx2 kernel twins on identical operands
  int ntasks = 0;               // 0 = single sequence
  int min_calls = 4, max_calls = 20;  // per task (or total when ntasks==0)
  int max_log2n = 6;            // mostly N <= 2^max_log2n
  int big_n_pct = 5;            // chance of a large dimension
  int max_big_log2n = 12;
  bool history_mode = false;    // C15: one totally ordered history, each call issued by a random thread
  bool allow_ties = false;      // identity-oracle worlds: conversion inputs may be exact .5 ties
  bool tiny_values = false;     // some floating inputs are tiny (products become subnormal): FP-environment sensitivity
  bool adjacent_slots = false;  // some buffers are carved back to back from one block
  bool lib_alloc_slots = false; // some opaque objects come from new_vec_znx_dft/big, new_svp_ppol, new_vmp_pmat
  bool shared_setup = false;    // C12: prepared objects and inputs produced in a setup section shared by tasks
  bool thorough = false;
};
Program generate_program(uint64_t seed, const GenCfg& cfg);

// ---------------------------------------------------------------------------------------------- executor
struct Violation {
  std::string kind;    // violation class kind (Appendix B)
  std::string detail;  // human readable
  int call = -1;
  int op = 0;
  int slot = -1;
};

struct ExecEnv {
  int mask = MASK_ALL;
  uint64_t mem_salt = 0;       // varies fills/placements between two executions of the same program
  bool vary_memory = false;    // apply mem_salt to slot memory plans (offset/fill)
  bool protect_sources = false;  // C18: sources PROT_READ during calls, objects frozen
  bool check_frame = true;     // padding / trailing canaries (plain+tsan), poison (asan)
  bool use_model = false;
  bool fresh_twin = false;     // C15 oracle 2
  bool conservation = false;   // C11 oracle 3
  bool calm = false;           // fault-free configuration: zeroed, 64-byte aligned buffers
  bool model_compare = true;   // compare integer outputs with the model (admissibility is always checked)
};

struct Exec {
  const Program& P;
  ExecEnv env;
  Exec* base = nullptr;          // shares setup-produced slots/modules/tables with another execution
  std::vector<void*> mods;       // MODULE*
  std::vector<void*> tabs;
  std::vector<uint8_t*> ptr;     // per slot
  std::vector<uint64_t> bytes;   // per slot
  std::vector<uint8_t> owned;    // slot allocated by this Exec
  std::vector<std::vector<uint64_t>> out_hash;  // per call: hash of each output operand after the call
  std::vector<uint8_t> done;     // per call executed
  std::vector<uint8_t> approx;   // per call: output only determined up to a documented tolerance (compared with the model, not bit-wise)
  Model model;
  std::vector<Violation> viol;
  uint64_t lib_mark = 0;
  bool ready = false;
  std::vector<std::pair<uint64_t, uint64_t>> obj_seq;  // allocation sequence range of every module / table (conservation)
  // statistics
  uint64_t n_calls = 0, n_protect = 0, n_prefill[SIM_FILL_NKINDS] = {0}, n_off[8] = {0}, n_exact = 0, n_life = 0, n_twin = 0;
  uint64_t n_model_checks = 0, n_adjacent = 0, n_fpenv_checks = 0;

  Exec(const Program& p, const ExecEnv& e, Exec* b = nullptr);
  ~Exec();
  void setup_objects();            // modules + tables (under env.mask)
  void run_call(int idx);          // executes call idx (allocating operands as needed)
  void run_range(int task);        // all calls of a task (or -1) in program order
  void release_all();
  void place_groups();  // setup executor only: carve the column groups
  uint8_t* ptmp = nullptr;  // persistent scratch (Program::persist_tmp)
  uint64_t ptmp_cap = 0;
  uint64_t n_tmp_reused = 0;
  std::vector<uint8_t*> group_blocks;
  uint64_t n_group_slots = 0;
  uint64_t slot_bytes(int slot) const;
  uint8_t* ensure_slot(int slot);
};
void set_cpu_mask(int mask);
int get_cpu_mask();
/** compares the per-call output hashes of two executions; returns first difference or -1 */
int compare_traces(const Exec& a, const Exec& b, int* operand);

// ---------------------------------------------------------------------------------------------- ops
uint64_t op_tmp_bytes(const Program& P, const Call& c, const std::vector<void*>& mods);
void op_invoke(const Program& P, const Call& c, const std::vector<void*>& mods, const std::vector<void*>& tabs, uint8_t* const* ptr, uint8_t* tmp);
void* table_create(const TableSpec& t);
void table_delete(const TableSpec& t, void* p);
/** declared extent, in bytes, of operand k of call c (the part of the slot the call may touch) */
uint64_t operand_extent(const Program& P, const Call& c, int k);
uint64_t slot_alloc_bytes(const Program& P, const Slot& s, const std::vector<void*>& mods);
bool op_is_integer_output(const Program& P, const Call& c, int k);
/** set by self-checking life-cycle operations (thread local): number of wrong coefficients in the last op_invoke */
int& op_selfcheck_errors();
int& op_leak_errors();
/** ride-along reference for the q120 entry points (lane-wise congruences); empty string = result is right */
std::string q120_reference_check(const Program& P, const Call& c, uint8_t* const* ptr);
